#!/bin/bash
# Offline setup after a fresh restore: third-party monitor libraries beside the repository's interpreter,
# byte-compile nothing (the harness is run from source), smoke-test the agent/driver/fork-server handshake.
set -e
cd "$(dirname "$0")"
mkdir -p .deps evidence replays
if [ ! -d .deps/jsonschema ] || [ ! -d .deps/icontract ]; then
  PIP_NO_INDEX=1 /venv/bin/python -m pip install -q --no-index --find-links /opt/veriftools/wheels --target .deps jsonschema icontract deal >/dev/null 2>&1 || \
  PIP_NO_INDEX=1 /venv/bin/python -m pip install -q --no-index --find-links /opt/veriftools/wheels --target .deps jsonschema icontract
fi
/venv/bin/python harness/smoke.py
