"""Check framework: campaign -> verdict (violated / held on what was observed / inconclusive),
known findings, replay files, evidence (validated against the schema before the check exits)."""
import collections
import hashlib
import json
import os
import random
import sys
import time

HARNESS = os.path.dirname(os.path.abspath(__file__))
VERIF = os.path.dirname(HARNESS)
sys.path.insert(0, HARNESS)

from sim import pool  # noqa: E402

EVIDENCE_SCHEMA = "/root/.vp/EVIDENCE.schema.json"
LOCAL_SCHEMA = os.path.join(HARNESS, "EVIDENCE.schema.json")


def sub_seed(seed, i, salt=""):
    h = hashlib.sha256(f"{seed}:{i}:{salt}".encode()).digest()
    return int.from_bytes(h[:6], "big")


def load_findings():
    p = os.path.join(VERIF, "known_findings.json")
    try:
        return json.load(open(p)).get("findings", [])
    except (OSError, ValueError):
        return []


def match_finding(v, findings):
    """A violation is a known finding only if an entry with status 'known' matches its property, its
    mechanism key and (if given) a regular expression on the witness text."""
    import re

    for f in findings:
        if f.get("status") != "known":
            continue
        if f["property"] != v["prop"] or f["key"] != v["key"]:
            continue
        if f.get("text_re") and not re.search(f["text_re"], v["text"]):
            continue
        return f
    return None


class Campaign:
    """Generic campaign over worker tasks.

    spec attributes: prop, level, tasks(tier, seed) -> [task], nontrivial(task, res) -> bool,
    sample(task, res) -> json, counters(results) -> dict, floors(cov) -> reason|None, rule, assumptions
    """

    def __init__(self, spec):
        self.spec = spec

    def run(self, tier, seed, replay=None):
        spec = self.spec
        t0 = time.time()
        pool.ensure_deps()
        use_z = getattr(spec, "zygote", True)
        with pool.Context(zygote=use_z) as ctx:
            if replay:
                tasks = [replay["task"]]
            else:
                tasks = spec.tasks(tier, seed)
            n = len(tasks)

            def progress(d, tot, res):
                if d % max(1, tot // 10) == 0 and os.environ.get("VERIF_PROGRESS"):
                    print(f"  .. {d}/{tot} {round(time.time() - t0)}s", file=sys.stderr, flush=True)

            results = pool.run_tasks(ctx, tasks, timeout=getattr(spec, "task_timeout", 150), progress=progress)
            if hasattr(spec, "second_phase") and not replay:
                extra = spec.second_phase(tier, seed, tasks, results)
                if extra:
                    r2 = pool.run_tasks(ctx, extra, timeout=getattr(spec, "task_timeout", 150), progress=progress)
                    tasks = tasks + extra
                    results = results + r2
        return self.verdict(tier, seed, tasks, results, time.time() - t0, replay)

    def verdict(self, tier, seed, tasks, results, wall, replay=None):
        spec = self.spec
        prop = spec.prop
        findings = load_findings()
        own = []
        known = collections.OrderedDict()
        incidental = collections.Counter()
        inconclusive = 0
        harness_err = []
        sigs = set()
        nontrivial_sigs = set()
        samples = []
        for i, (t, r) in enumerate(zip(tasks, results)):
            if r is None:
                r = {"error": "inconclusive: no result", "violations": []}
                results[i] = r
            err = r.get("error")
            if err:
                if err.startswith("inconclusive"):
                    inconclusive += 1
                else:
                    harness_err.append((i, err))
            for v in r.get("violations", []):
                if v["prop"] == prop or v["prop"] in getattr(spec, "also", ()):
                    v = dict(v, prop=prop) if v["prop"] != prop else v
                    f = match_finding(v, findings)
                    if f is not None:
                        known.setdefault((f["property"], f["key"], f.get("what", "")), []).append((i, v))
                    else:
                        own.append((i, v))
                else:
                    incidental[(v["prop"], v["key"])] += 1
            sig = r.get("sig") or hashlib.sha1(json.dumps(t.get("args", {}), sort_keys=True, default=str).encode()).hexdigest()[:16]
            shape = spec.shape(t, r) if hasattr(spec, "shape") else ""
            key = (shape, sig)
            if not err:
                sigs.add(key)
                try:
                    nt = spec.nontrivial(t, r)
                except Exception:
                    nt = False
                if nt:
                    if key not in nontrivial_sigs and len(samples) < 3:
                        samples.append(spec.sample(t, r))
                    nontrivial_sigs.add(key)
        if not samples and tasks and not getattr(spec, "aggregate", False):
            for t, r in zip(tasks, results):
                if not r.get("error"):
                    samples.append(spec.sample(t, r))
                    break
        if getattr(spec, "aggregate", False):
            # each task is a chunk of many cases; the chunk reports its own measured counts and case hashes
            hashes = set()
            nt_hashes = set()
            ncases = 0
            for r in results:
                ncases += r.get("cases") or 0
                hashes.update(r.get("case_hashes") or [])
                nt_hashes.update(r.get("nontrivial_hashes") or [])
            samples = []
            seen_parts = set()
            for r in results:  # one sample per part first, so that the evidence shows every kind of case
                for smp in r.get("samples") or []:
                    part = smp.get("part") if isinstance(smp, dict) else None
                    if part not in seen_parts and len(samples) < 5:
                        seen_parts.add(part)
                        samples.append(smp)
            for r in results:
                for smp in r.get("samples") or []:
                    if len(samples) < 3 and smp not in samples:
                        samples.append(smp)
            n_eval, n_nt, n_dist = ncases, len(nt_hashes), len(hashes)
        else:
            n_eval, n_nt, n_dist = len(tasks), len(nontrivial_sigs), len(sigs)
        cov = {
            "evaluations": n_eval,
            "distinct_nontrivial": n_nt,
            "distinct_executions": n_dist,
            "rule": spec.rule,
            "samples": samples or [{"note": "no execution completed"}],
            "inconclusive_executions": inconclusive,
            "harness_errors": len(harness_err),
            "incidental_other_properties": {f"{p}:{k}": n for (p, k), n in incidental.items()},
            "known_findings_seen": {f"{p}:{k}": len(v) for (p, k, w), v in known.items()},
        }
        try:
            cov.update(spec.counters(tasks, results))
        except Exception as e:  # evidence must never crash the verdict
            cov["counter_error"] = repr(e)
        if getattr(spec, "exhaustive", None) is not None:
            cov["exhaustive"] = bool(spec.exhaustive(tier, tasks, results))
        # ---- verdict
        out_lines = []
        exit_code = 0
        for (p, k, what), vs in known.items():
            out_lines.append(f"KNOWN-FINDING: property={p} {what} [{k}; seen {len(vs)}x in this run, e.g. {vs[0][1]['text'][:160]}]")
        for f in findings:
            if f.get("status") == "known" and f["property"] == prop and not any(k[1] == f["key"] for k in known):
                out_lines.append(f"KNOWN-FINDING: property={prop} {f.get('what', '')} [{f['key']}; listed, not reached by this run's executions]")
        seen_keys = set()
        replays_dir = os.environ.get("VERIF_REPLAY_DIR") or os.path.join(VERIF, "replays")
        for i, v in own:
            if v["key"] in seen_keys:
                continue
            seen_keys.add(v["key"])
            os.makedirs(replays_dir, exist_ok=True)
            body = {"property": prop, "violation": v, "task": tasks[i], "seed": seed, "tier": tier, "trace_tail": results[i].get("trace_tail"), "choices": results[i].get("choices"),
                    "all_violations_of_run": results[i].get("violations")}
            h = hashlib.sha1(json.dumps([v["key"], tasks[i]], sort_keys=True, default=str).encode()).hexdigest()[:10]
            path = os.path.join(replays_dir, f"{prop}-{v['key']}-{h}.json")
            with open(path, "w") as f:
                json.dump(body, f, indent=1, default=str)
            out_lines.append(f"VIOLATION property={prop} replay={path}")
            out_lines.append(f"  witness[{v['key']}] ({sum(1 for _, w in own if w['key'] == v['key'])}x): {v['text'][:400]}")
            exit_code = 1
        for (p, k), nn in sorted(incidental.items()):
            out_lines.append(f"NOTE property={p} {k} seen {nn}x on this campaign (not this check's property)")
        inner = collections.Counter()
        inner_ex = {}
        for r in results:
            for f in (r or {}).get("inner_failures") or []:
                inner[f[0]] += 1
                inner_ex.setdefault(f[0], f[1])
        for name, nn in inner.items():
            out_lines.append(f"NOTE inner-monitor (advisory, icontract post-condition inside JADE) failed {nn}x: {name}: {inner_ex[name]}")
        reason = None
        if exit_code == 0:
            if harness_err:
                reason = f"harness errors in {len(harness_err)} executions, e.g. {harness_err[0][1][:300]}"
            elif len(tasks) and inconclusive > max(2, len(tasks) // 10):
                reason = f"{inconclusive} of {len(tasks)} executions hit a watchdog"
            elif not replay:
                reason = spec.floors(cov)
                if reason is None and cov["distinct_nontrivial"] < 2:
                    reason = f"only {cov['distinct_nontrivial']} distinct non-trivial executions"
            if reason:
                out_lines.append(f"INCONCLUSIVE property={prop} reason={reason}")
                exit_code = 2
        ev = {
            "property_id": prop,
            "tier": tier if tier in ("quick", "thorough") else "quick",
            "seed": int(seed),
            "level": spec.level,
            "coverage": cov,
            "assumptions": list(getattr(spec, "assumptions", [])),
            "wall_s": round(wall, 1),
            "violations": len(own),
            "verdict": "violated" if exit_code == 1 else ("inconclusive" if exit_code == 2 else "held on what was observed"),
        }
        if not replay:
            write_evidence(prop, ev)
        for l in out_lines:
            print(l)
        c = cov
        print(f"{prop} {tier}: {ev['verdict']}; executions={c['evaluations']} distinct_nontrivial={c['distinct_nontrivial']} inconclusive={inconclusive} wall={round(wall, 1)}s")
        return exit_code


def write_evidence(prop, ev):
    evdir = os.environ.get("VERIF_EVIDENCE_DIR") or os.path.join(VERIF, "evidence")  # override: validation runs against scratch trees
    os.makedirs(evdir, exist_ok=True)
    path = os.path.join(evdir, f"{prop}.json")
    try:
        sys.path.insert(0, pool.DEPS)
        import jsonschema

        schema = json.load(open(EVIDENCE_SCHEMA if os.path.exists(EVIDENCE_SCHEMA) else LOCAL_SCHEMA))
        jsonschema.validate(json.loads(json.dumps(ev, default=str)), schema)
    except ImportError:
        print("warning: jsonschema not importable, evidence not validated", file=sys.stderr)
    with open(path, "w") as f:
        json.dump(ev, f, indent=1, default=str)
    return path


def total(results, key):
    return sum((r.get(key) or 0) for r in results if isinstance(r.get(key) or 0, (int, float)))


def hist(values):
    c = collections.Counter(str(v) for v in values)
    return dict(sorted(c.items()))
