"""Property id -> check specification."""
import checks_comp
import checks_sim

SPECS = {}
SPECS.update(checks_sim.SPECS)
SPECS.update(checks_comp.SPECS)
