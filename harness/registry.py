"""Property id -> check specification."""
import checks_sim

SPECS = {}
SPECS.update(checks_sim.SPECS)
