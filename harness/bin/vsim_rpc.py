#!/venv/bin/python -SE
"""Generic RPC actor: simulated SLURM commands, job probes, lifecycle-command probes.

Announces itself to the driver (argv, environment, cwd, virtual node/host) and does whatever the
driver answers: print text, exit with a code, or die here.
"""
import json
import os
import socket
import sys

role = os.path.basename(sys.argv[0])
s = socket.socket(socket.AF_UNIX, socket.SOCK_SEQPACKET)
s.connect(os.environ["VSIM_SOCK"])
env = {k: v for k, v in os.environ.items() if k.startswith(("JADE_", "SLURM_", "VSIM_NODE", "VSIM_HOST"))}
s.send(
    json.dumps(
        {
            "k": "hello",
            "pid": os.getpid(),
            "ppid": os.getppid(),
            "role": role,
            "argv": sys.argv,
            "env": env,
            "cwd": os.getcwd(),
            "node": os.environ.get("VSIM_NODE"),
            "host": os.environ.get("VSIM_HOST"),
            "tag": os.environ.get("VSIM_TAG"),
        }
    ).encode()
)
data = s.recv(1 << 16)
if not data:
    os._exit(111)
rep = json.loads(data)
if rep.get("a") == "die":
    os.kill(os.getpid(), 9)
if rep.get("out"):
    sys.stdout.write(rep["out"])
    sys.stdout.flush()
if rep.get("err"):
    sys.stderr.write(rep["err"])
    sys.stderr.flush()
os._exit(rep.get("rc", 0))
