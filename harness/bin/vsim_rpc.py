#!/venv/bin/python -SE
"""Generic RPC actor: simulated SLURM commands, job probes, lifecycle-command probes.

Announces itself to the driver (argv, environment, cwd, virtual node/host) and does whatever the
driver answers: print text, exit with a code, or die here.
"""
import json
import os
import socket
import sys

role = os.path.basename(sys.argv[0])
s = socket.socket(socket.AF_UNIX, socket.SOCK_SEQPACKET)
s.connect(os.environ["VSIM_SOCK"])
env = {k: v for k, v in os.environ.items() if k.startswith(("JADE_", "SLURM_", "VSIM_NODE", "VSIM_HOST"))}
evf = None
events = None
if role == "probe" and os.environ.get("VSIM_JOB_EVENTS") in ("1", "2") and os.environ.get("JADE_JOB_NAME") and os.environ.get("JADE_RUNTIME_OUTPUT"):
    # a job that logs structured events the way `jade-internal run <extension>` does: its own events.log under job-outputs,
    # opened once and kept open (a logging.FileHandler), one event at the start and one at the end
    import datetime

    name = os.environ["JADE_JOB_NAME"]
    d = os.path.join(os.environ["JADE_RUNTIME_OUTPUT"], "job-outputs", name)
    os.makedirs(d, exist_ok=True)
    evf = open(os.path.join(d, "events.log"), "a")
    t1 = datetime.datetime.now()
    mk = lambda what, t: json.dumps({"category": "job", "data": {"pid": os.getpid(), "what": what}, "event_class": "StructuredLogEvent", "message": f"{name} {what}", "name": "probe_job", "source": name, "timestamp": str(t)}, sort_keys=True)
    events = [mk("started", t1), mk("finished", t1 + datetime.timedelta(microseconds=1))]
    evf.write(events[0] + "\n")
    if os.environ.get("VSIM_JOB_EVENTS") == "2":
        # ... and a resource-utilisation sample, as a periodic resource monitor logs them (consolidated into <name>.parquet)
        stat = json.dumps({"category": "ResourceUtilization", "data": {"cpu_percent": float(os.getpid() % 97), "idle": 1.5}, "event_class": "StructuredLogEvent", "message": "cpu stats update", "name": "cpu_stats", "source": name, "timestamp": str(t1 + datetime.timedelta(microseconds=2))}, sort_keys=True)
        evf.write(stat + "\n")
        events.append(stat)
    evf.flush()
s.send(
    json.dumps(
        {
            "events": events,
            "k": "hello",
            "pid": os.getpid(),
            "ppid": os.getppid(),
            "role": role,
            "argv": sys.argv,
            "env": env,
            "cwd": os.getcwd(),
            "node": os.environ.get("VSIM_NODE"),
            "host": os.environ.get("VSIM_HOST"),
            "tag": os.environ.get("VSIM_TAG"),
        }
    ).encode()
)
data = s.recv(1 << 16)
if not data:
    os._exit(111)
rep = json.loads(data)
if rep.get("a") == "die":
    os.kill(os.getpid(), 9)
if evf is not None:
    evf.write(events[1] + "\n")
    evf.close()
if rep.get("out"):
    sys.stdout.write(rep["out"])
    sys.stdout.flush()
if rep.get("err"):
    sys.stderr.write(rep["err"])
    sys.stderr.flush()
if rep.get("rc", 0) < 0:
    # the job does not exit: it is killed by a signal (out of memory, a user's kill); its real status is "signal n"
    import signal

    signal.signal(-rep["rc"], signal.SIG_DFL) if -rep["rc"] not in (9, 19) else None
    os.kill(os.getpid(), -rep["rc"])
    import time

    time.sleep(5)
os._exit(rep.get("rc", 0))
