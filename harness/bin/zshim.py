#!/venv/bin/python -SE
"""`jade` / `jade-internal` on PATH of a simulation: hand the invocation to the fork server
(VSIM_ZSOCK) or, without one, exec a fresh interpreter running the real click entry point."""
import json
import os
import socket
import sys

prog = os.path.basename(sys.argv[0])
z = os.environ.get("VSIM_ZSOCK")
if not z and prog == "vpy":
    os.execv("/venv/bin/python", ["/venv/bin/python"] + sys.argv[1:])
if not z:
    mod = "jade.cli.jade" if prog == "jade" else "jade.cli.jade_internal"
    code = f"import sys; sys.argv[0]={prog!r}; from {mod} import cli; cli()"
    os.execv("/venv/bin/python", ["/venv/bin/python", "-c", code] + sys.argv[1:])
s = socket.socket(socket.AF_UNIX, socket.SOCK_STREAM)
s.connect(z)
req = {
    "prog": prog,
    "args": sys.argv[1:],
    "env": dict(os.environ),
    "cwd": os.getcwd(),
    "lppid": os.getppid(),
    "shim_pid": os.getpid(),
}
socket.send_fds(s, [json.dumps(req).encode()], [0, 1, 2])
data = s.recv(4096)
if not data:
    os._exit(113)
st = json.loads(data)["st"]
if os.WIFSIGNALED(st):
    os.kill(os.getpid(), os.WTERMSIG(st))
os._exit(os.WEXITSTATUS(st))
