"""C10: promote / demote / update / stale-write histories of several handles under the deterministic scheduler.

Mutual exclusion is decided with the usual two interval kinds: a handle *definitely* holds the role from the
return of a successful promotion to the CALL of its demote, and *possibly* holds it from the call of its
promotion to the return of its demote.
"""
import hashlib
import json
import os

from sim.driver import Sim, Inconclusive

HERE = os.path.dirname(os.path.abspath(__file__))
FILES = ["cluster_config.json", "job_status.json", "config_version.txt", "job_status_version.txt"]


def prepare(scen, root, ctx):
    os.environ["JADE_REGISTRY"] = ctx["registry"]
    import socket

    from jade.extensions.generic_command import GenericCommandConfiguration, GenericCommandParameters
    from jade.jobs.cluster import Cluster
    from jade.models import HpcConfig, SlurmConfig, SubmitterParams

    os.makedirs(os.path.join(root, "out"))
    cwd = os.getcwd()
    os.chdir(root)
    try:
        cfg = GenericCommandConfiguration()
        for i in range(scen.get("njobs", 8)):
            cfg.add_job(GenericCommandParameters(command="true", name=f"j{i}"))
        cfg.assign_default_submission_group(SubmitterParams(hpc_config=HpcConfig(hpc_type="slurm", hpc=SlurmConfig(account="a"))))
        c = Cluster.create("out", cfg)
        c.demote_from_submitter()
    finally:
        os.chdir(cwd)


class S10(Sim):
    def __init__(self, root, scen, seed, ctx, verbose=False):
        scen.setdefault("jobs", [])
        scen.setdefault("groups", [])
        Sim.__init__(self, root, scen, seed, ctx, verbose)
        self.hist = []
        self.holder = None
        self.possible = set()
        self.pending_calls = {}
        self.other_possible_during = {}
        self.open_promotes = 0
        self.n_overlap = 0
        self.n_stale = 0
        self.n_rejected = 0
        self.n_promoted = 0
        self.n_refused = 0
        self.n_timeouts = 0
        self.writes_checked = 0
        self.killed = None
        self.kill_count = 0
        self.kill_site = None
        self.slow = None
        self.slow_seen = set()
        self.slow_count = 0
        self.slow_released = False
        self.slow_jump0 = 0

    # ---- slow-holder slice (as in C08, for the cluster lock): the k-th critical point a handle reaches *inside a cluster-lock
    # hold* stalls for longer than the lock timeout (300 s).  The waiting handles must fail loudly (filelock.Timeout); the lock
    # stays the stalled holder's: nobody may take it over, whatever the marker looks like.
    def candidates(self):
        sh = self.scen.get("slow_holder")
        if sh and self.slow is None:
            for a in sorted(self.actors.values(), key=lambda x: x.idx):
                if a.state == "waiting" and a.role == "py" and a.msg.get("k") == "io" and (a.pid, a.n) not in self.slow_seen and self.park_point(a.msg) and self.holds_lock(a, cluster_only=True):
                    self.slow_seen.add((a.pid, a.n))
                    self.slow_count += 1
                    if self.slow_count == sh:
                        self.slow = a
                        self.slow_jump0 = self.time_jumps
                        self.log("SLOW_HOLDER", a.top, a.host, self.point_class(a.msg))
                        break
        cands, sleepers = Sim.candidates(self)
        if self.slow is not None and not self.slow_released:
            rest = [c for c in cands if c[2] is not self.slow]
            if self.time_jumps > self.slow_jump0 or self.slow.state == "dead" or (not rest and not sleepers):
                self.slow_released = True
                self.log("SLOW_HOLDER_RELEASED", self.slow.top, "time jumps", self.time_jumps - self.slow_jump0)
            else:
                cands = rest
        return cands, sleepers

    def digest(self):
        h = {}
        for f in FILES:
            try:
                h[f] = hashlib.sha256(open(os.path.join(self.out, f), "rb").read()).hexdigest()[:16]
            except FileNotFoundError:
                h[f] = None
        return h

    def versions(self):
        out = []
        for f in ("config_version.txt", "job_status_version.txt"):
            try:
                out.append(int(open(os.path.join(self.out, f)).read().strip() or -1))
            except (OSError, ValueError):
                out.append(None)  # mid-rewrite (file truncated): not a readable instant
        return out

    def on_call_event(self, a, m):
        who = m["who"]
        V = lambda key, text: self.viol("C10", key, text)
        self.shared_event(a, m["k"], m.get("op", ""))
        if m["k"] == "call":
            op = m["op"]
            if op == "demote":
                if self.holder == who:
                    self.holder = None  # the definite-hold interval ends when demote is CALLED
                self.possible.add(who)
            if op in ("promote", "stale_promote"):
                self.possible.add(who)
                if self.open_promotes:
                    self.n_overlap += 1
                self.open_promotes += 1
            self.pending_calls[who] = m
            self.other_possible_during[who] = bool((self.possible - {who}) or (self.holder and self.holder != who))
        else:
            call = self.pending_calls.pop(who, None)
            op = m["op"]
            out = m.get("outcome")
            if out == "timeout":
                self.n_timeouts += 1
            if op in ("promote", "stale_promote"):
                self.open_promotes -= 1
                got = m.get("promoted") if op == "promote" else (out == "accepted")
                if op == "stale_promote":
                    self.n_stale += 1
                    if out == "accepted":
                        V("stale-write-accepted", f"{who}: promote_to_submitter from a copy with config version {call['cv']} accepted although disk was at {call['disk'][0]}")
                    elif out == "rejected":
                        self.n_rejected += 1
                if got:
                    self.n_promoted += 1
                    if self.holder is not None and self.holder != who:
                        V("two-submitters", f"{who} was promoted while {self.holder} definitely holds the role")
                    self.holder = who
                else:
                    self.possible.discard(who)
                    if op == "promote" and out is None:
                        self.n_refused += 1
                        if not self.other_possible_during.get(who):
                            V("refused-without-holder", f"{who} was refused although no other handle could have held the role at any instant of the attempt")
            elif op == "demote":
                self.possible.discard(who)
            elif op in ("stale_write", "stale_write_jobs", "stale_demote"):
                self.n_stale += 1
                if out == "accepted":
                    ver = call["cv"] if op != "stale_write_jobs" else call["jv"]
                    disk = call["disk"][0] if op != "stale_write_jobs" else call["disk"][1]
                    V("stale-write-accepted", f"{who}: {op} from a copy at version {ver} accepted although disk was at {disk}")
                elif out == "rejected":
                    self.n_rejected += 1
                    want = "ConfigVersionMismatch" if op != "stale_write_jobs" else "JobStatusVersionMismatch"
                    if m.get("exc") != want:
                        V("wrong-rejection", f"{who}: {op} rejected with {m.get('exc')}, expected {want}")
            self.hist.append((who, op, {k: v for k, v in m.items() if k not in ("k", "who", "op")}))
        for w in list(self.pending_calls):
            if (self.possible - {w}) or (self.holder and self.holder != w):
                self.other_possible_during[w] = True

    def maybe_kill(self, a):
        """History slice with a writer that dies: handle `h` is killed at the k-th file operation of its write operations."""
        kl = self.scen.get("kill")
        if not kl or self.killed or a.top != f"h{kl['handle']}" or not a.msg or a.msg.get("k") != "io":
            return False
        c = self.pending_calls.get(a.top)
        if not c or c["op"] not in ("promote", "work", "demote", "complete_id"):
            return False
        self.kill_count += 1
        if self.kill_count < kl["k"]:
            return False
        self.killed = a.top
        self.kill_site = self.point_class(a.msg)
        self.log("KILL_HANDLE", a.top, a.host, c["op"], self.kill_site)
        self.reply(a, **{"a": "die"})
        return True

    def step_actor(self, a):
        if self.maybe_kill(a):
            self.settle()
            return
        who = (a.msg or {}).get("who") if a.msg and a.msg.get("k") in ("call", "ret") else None
        in_stale = None
        for w, c in self.pending_calls.items():
            if c.get("_pid") == a.pid and c["op"] in ("stale_write", "stale_write_jobs", "stale_promote", "stale_demote"):
                in_stale = w
        if a.msg and a.msg.get("k") == "call":
            a.msg["_pid"] = a.pid
        v0 = self.versions()
        d0 = self.digest() if in_stale else None
        Sim.step_actor(self, a)
        self.settle()
        v1 = self.versions()
        self.writes_checked += 1
        for i, name in enumerate(("config", "job status")):
            if v0[i] is None or v1[i] is None:
                continue
            if v1[i] not in (v0[i], v0[i] + 1):
                self.viol("C10", "lost-update", f"{name} version on disk went {v0[i]} -> {v1[i]} in one step of {a.host}/{a.pid}: a write from a copy that was not current")
        if in_stale:
            d1 = self.digest()
            if d1 != d0:
                ch = [f for f in FILES if d0[f] != d1[f]]
                self.viol("C10", "stale-write-changed-files", f"{in_stale}: out-of-date write attempt changed {ch}")
        for w in list(self.pending_calls):
            if (self.possible - {w}) or (self.holder and self.holder != w):
                self.other_possible_during[w] = True

    def run(self):
        os.chdir(self.root)
        actor = os.path.join(HERE, "actor_c10.py")
        for k, h in enumerate(self.scen["handles"]):
            self.spawn_top(f"h{k}", ["vpy", actor, f"h{k}", json.dumps(h["prog"])], h["host"])
            self.settle()  # one hello at a time: the order of arrival decides priorities and must not depend on real time
        err = None
        try:
            while True:
                if self.steps > 30000:
                    raise Inconclusive("step cap")
                self.settle()
                c = self.choose()
                if c is None:
                    break
                self.steps += 1
                self.choices.append("a")
                self.step_actor(c[2])
            for tag, rc in self.top_rc.items():
                if rc != 0:
                    tail = open(os.path.join(self.root, f"top_{tag}.log")).read()[-300:]
                    self.note(f"{tag} exited {rc}: {tail}")
        except Inconclusive as e:
            err = f"inconclusive: {e}"
        res = self.result(err)
        res.update(ops=len(self.hist), promotions=self.n_promoted, refusals=self.n_refused, overlapping_promotes=self.n_overlap, stale_attempts=self.n_stale,
                   stale_rejected=self.n_rejected, timeouts=self.n_timeouts, slow_holder_stalled=bool(self.slow is not None and self.time_jumps > self.slow_jump0), steps_version_checked=self.writes_checked,
                   errors=sum(1 for h in self.hist if h[2].get("outcome") == "error"), killed_handle=self.killed, kill_site=str(self.kill_site) if self.kill_site else None,
                   stale_after_kill=sum(1 for h in self.hist if self.killed and h[1].startswith("stale") and h[2].get("outcome") in ("rejected", "accepted")))
        return res
