"""C20 component harness: reports are faithful.

(a) events: several real processes (forked from the worker, so JADE is already imported) call the real
    setup_event_logging + log_event on generated multisets of events - own files and one shared file, as concurrent
    submitters do; then EventsSummary(output) must hold every event exactly once, all fields intact, ordered by time within
    its name, and constructing it again (also with preload=True) must not change it;
(b) statistics: the sampling functions under ResourceMonitorAggregator are replaced by generated sequences; after the real
    update_resource_stats x n and finalize, the JSON under stats/ must carry the true min, max and mean;
(c) tallies: generated result sets through the real completion step: each job in exactly one of successful / failed /
    canceled / missing in results.json and in ResultsSummary.show_results.
"""
import contextlib
import hashlib
import io
import json
import logging
import math
import os
import random
import re
import shutil

NAMES = ["hpc_submit", "bytes_consumed", "x y", "submit_completed", "my-event.v2", "unhandled_error", "Ünïcode"]
CATS = ["HPC", "ResourceUtilization", "Error", "user cat"]


def _setup(ctx):
    os.environ["JADE_REGISTRY"] = ctx["registry"]
    logging.disable(logging.NOTSET)


def gen_value(rng, depth=0):
    k = rng.randint(0, 7 if depth < 2 else 4)
    if k == 0:
        return rng.randint(-(10**12), 10**12)
    if k == 1:
        return rng.choice([0.0, 1.5, -2.25, 1e-9, 3.0e20])
    if k == 2:
        return rng.choice(["", "a", 'q"uote', "back\\slash", "new\nline", "tab\t", "é漢字", "x" * rng.randint(0, 300), "{not json}", ","])
    if k == 3:
        return rng.choice([True, False])
    if k == 4:
        return None
    if k in (5, 6):
        return [gen_value(rng, depth + 1) for _ in range(rng.randint(0, 3))]
    return {rng.choice(["a", "b", "k 1", "é"]): gen_value(rng, depth + 1) for _ in range(rng.randint(0, 3))}


def gen_event(rng, src, idx, tsbase):
    ts = f"2026-01-0{rng.randint(1, 3)} 1{rng.randint(0, 2)}:00:{rng.randint(0, 59):02d}.{rng.choice([0, 1, 500000, 999999]):06d}" if rng.random() < 0.8 else tsbase
    data = {rng.choice(["idx", "value", "payload", "nested", "job_id", "bytes_consumed", "k-1"]) + (str(i) if i else ""): gen_value(rng) for i in range(rng.randint(0, 4))}
    data["uid"] = f"{src}:{idx}"  # unique id: a consolidated event identifies its write
    return {"source": src, "category": rng.choice(CATS), "name": rng.choice(NAMES), "message": rng.choice(["m", 'm "q" , é', "", "line1\nline2"]), "timestamp": ts, "data": data}


def part_events(args, wd, viol, stats):
    from jade.events import EventsSummary, StructuredLogEvent
    from jade.loggers import close_event_logging, log_event, setup_event_logging

    rng = random.Random(args["seed"])
    hashes, nt = [], []
    for case in range(args["count"]):
        out = os.path.join(wd, "out")
        shutil.rmtree(out, ignore_errors=True)
        os.makedirs(out)
        nproc = rng.randint(1, 6)
        plans = []
        for p in range(nproc):
            shared = rng.random() < 0.5
            fn = "submit_jobs_events.log" if shared else f"run_jobs_batch_{p}_0_events.log"
            evs = [gen_event(rng, f"p{p}", i, "2026-01-02 11:00:00.000001") for i in range(rng.randint(0, 40))]
            # one buffered write per event (as JADE's own events): keep lines <= 4 KB
            evs = [e for e in evs if len(json.dumps(e)) < 3500]
            # like JobRunner._aggregate_events, a process may close its event log in the middle and keep logging afterwards
            close_at = rng.randrange(len(evs)) if evs and rng.random() < 0.35 else None
            plans.append((fn, evs, close_at))
        pids = []
        for fn, evs, close_at in plans:
            pid = os.fork()
            if pid == 0:
                try:
                    setup_event_logging(os.path.join(out, fn), mode="a")
                    for ei, e in enumerate(evs):
                        if ei == close_at:
                            close_event_logging()
                        log_event(StructuredLogEvent(source=e["source"], category=e["category"], name=e["name"], message=e["message"], timestamp=e["timestamp"], **e["data"]))
                    logging.shutdown()
                finally:
                    os._exit(0)
            pids.append(pid)
        for pid in pids:
            os.waitpid(pid, 0)
        written = [e for _, evs, _c in plans for e in evs]
        stats["processes_closing_their_log_midway"] = stats.get("processes_closing_their_log_midway", 0) + sum(1 for _, _e, c_ in plans if c_ is not None)
        h = hashlib.sha1(json.dumps(written, sort_keys=True).encode()).hexdigest()[:12]
        hashes.append(h)
        files = {fn for fn, evs, _c in plans if evs}
        if len(written) >= 10 and nproc >= 2:
            nt.append(h)
        stats["events_written"] = stats.get("events_written", 0) + len(written)
        stats["event_processes"] = stats.get("event_processes", 0) + nproc
        stats["processes_sharing_a_file"] = stats.get("processes_sharing_a_file", 0) + sum(1 for fn, _e, _c in plans if fn == "submit_jobs_events.log")

        def key(e):
            return json.dumps([e["timestamp"], e["source"], e["category"], e["message"], e["data"]], sort_keys=True)

        def collect(summary):
            got = {}
            # names: what was written plus whatever else the consolidation produced on disk (list_unique_names() returns
            # file names with their .json suffix, so it is not used to enumerate)
            on_disk = {p_.stem for p_ in (summary._event_dir).iterdir() if p_.suffix == ".json"}
            for name in sorted({e["name"] for e in written} | on_disk):
                got[name] = [{"timestamp": ev.timestamp, "source": ev.source, "category": ev.category, "message": ev.message, "data": ev.data, "name": ev.name} for ev in summary.list_events(name)]
            return got

        try:
            first = collect(EventsSummary(out))
            second = collect(EventsSummary(out))
            third = collect(EventsSummary(out, preload=True))
        except Exception as e:
            viol("summary-crashed", f"EventsSummary raised {e!r} on {len(written)} events from {nproc} processes")
            continue
        want = {}
        for e in written:
            want.setdefault(e["name"], []).append(e)
        extra_names = sorted(n_ for n_, evs_ in first.items() if n_ not in want and evs_)
        if extra_names:
            viol("event-names", f"the summary holds events under names nobody wrote: {extra_names}")
        for name, evs in want.items():
            got = first.get(name, [])
            a = sorted(key(e) for e in evs)
            b = sorted(key(e) for e in got)
            if a != b:
                lost = len([x for x in a if x not in b])
                extra = len([x for x in b if x not in a])
                viol("event-multiset", f"name {name!r}: {len(evs)} written, {len(got)} consolidated; {lost} lost/changed, {extra} unexpected/duplicated")
            ts = [e["timestamp"] for e in got]
            if ts != sorted(ts):
                viol("event-order", f"name {name!r}: events not ordered by time")
            if any(e["name"] != name for e in got):
                viol("event-name-field", f"name {name!r}: an event listed under it carries another name")
        if second != first:
            viol("not-idempotent", "constructing EventsSummary a second time changed the events")
        if third != first:
            viol("not-idempotent-preload", "EventsSummary(preload=True) differs from the first consolidation")
        if len(stats["samples"]) < 1 and written:
            stats["samples"].append({"part": "events", "processes": nproc, "files": sorted(files), "events": len(written), "example_event": written[0]})
    return hashes, nt


def gen_seq(rng):
    n = rng.randint(1, 50)
    kind = rng.choice(["increasing", "decreasing", "constant", "zero", "mixed", "mixed", "min_first", "max_first"])
    if kind == "increasing":
        v = sorted(rng.uniform(0, 100) for _ in range(n))
    elif kind == "decreasing":
        v = sorted((rng.uniform(0, 100) for _ in range(n)), reverse=True)
    elif kind == "constant":
        v = [rng.choice([0.5, 7.0, 99.9])] * n
    elif kind == "zero":
        v = [0.0] * n
    else:
        v = [rng.choice([rng.uniform(0, 100), float(rng.randint(0, 10**9))]) for _ in range(n)]
        if kind == "min_first":
            v.sort()
            v = v[:1] + rng.sample(v[1:], len(v) - 1)
        elif kind == "max_first":
            v.sort(reverse=True)
            v = v[:1] + rng.sample(v[1:], len(v) - 1)
    return kind, v


def part_stats(args, wd, viol, stats):
    from jade.models.submitter_params import ResourceMonitorStats
    from jade.resource_monitor import ResourceMonitor, ResourceMonitorAggregator

    rng = random.Random(args["seed"])
    hashes, nt = [], []
    orig = {k: getattr(ResourceMonitor, k) for k in ("get_cpu_stats", "get_memory_stats", "get_disk_stats", "get_network_stats", "get_process_stats")}
    try:
        for case in range(args["count"]):
            out = os.path.join(wd, "sout")
            shutil.rmtree(out, ignore_errors=True)
            os.makedirs(os.path.join(out, "stats"))
            kinds = {}
            n = None
            seqs = {}
            use = {"cpu": True, "memory": rng.random() < 0.7, "disk": rng.random() < 0.4, "network": rng.random() < 0.4}
            statnames = {"cpu": ["cpu_percent", "user"], "memory": ["percent", "available"], "disk": ["read MB/s"], "network": ["recv MB/s"]}
            kind0, base = gen_seq(rng)
            n = len(base)
            for res, on in use.items():
                if not on:
                    continue
                for sn in statnames[res]:
                    k, v = gen_seq(rng)
                    v = (v * (n // len(v) + 1))[:n] if len(v) != n else v
                    if k in ("increasing",):
                        v = sorted(v)
                    elif k == "decreasing":
                        v = sorted(v, reverse=True)
                    seqs[(res, sn)] = v
                    kinds[(res, sn)] = k
            pos = {"i": -1}  # -1: the sample taken by the constructor (not part of the summaries)

            def sampler(res):
                def f(self):
                    i = pos["i"]
                    return {sn: (seqs[(res, sn)][i] if i >= 0 else 12345.0) for (r, sn) in seqs if r == res}

                return f

            ResourceMonitor.get_cpu_stats = sampler("cpu")
            ResourceMonitor.get_memory_stats = sampler("memory")
            ResourceMonitor.get_disk_stats = sampler("disk")
            ResourceMonitor.get_network_stats = sampler("network")
            with_proc = rng.random() < 0.4
            pseq = {}
            win = {}
            if with_proc:
                for pname in ("jobA", "jobB")[: rng.randint(1, 2)]:
                    pseq[pname] = {"rss": gen_seq(rng)[1], "cpu_percent": gen_seq(rng)[1]}
                    for sn in pseq[pname]:
                        v = pseq[pname][sn]
                        pseq[pname][sn] = (v * (n // len(v) + 1))[:n]
                    # a job runs during part of the batch only: it is sampled in the intervals of its own lifetime
                    a = rng.randint(0, n - 1) if rng.random() < 0.6 else 0
                    win[pname] = (a, rng.randint(a + 1, n) if rng.random() < 0.6 else n)

                def proc(self, pid, include_children=True, recurse_children=False):
                    name = {101: "jobA", 102: "jobB"}[pid]
                    return {sn: pseq[name][sn][pos["i"]] for sn in pseq[name]}, []

                ResourceMonitor.get_process_stats = proc
            agg = ResourceMonitorAggregator("batch_x", ResourceMonitorStats(cpu=use["cpu"], memory=use["memory"], disk=use["disk"], network=use["network"], process=with_proc))
            for i in range(n):
                pos["i"] = i
                agg.update_resource_stats(ids={p: {"jobA": 101, "jobB": 102}[p] for p in pseq if win[p][0] <= i < win[p][1]})
            agg.finalize(out)
            files = os.listdir(os.path.join(out, "stats"))
            if len(files) != 1:
                viol("stats-file", f"{len(files)} files under stats/")
                continue
            data = json.load(open(os.path.join(out, "stats", files[0])))
            bytype = {d["type"]: d for d in data if "name" not in d}
            byproc = {d["name"]: d for d in data if "name" in d}
            tmap = {"cpu": "CPU", "memory": "Memory", "disk": "Disk", "network": "Network"}
            h = hashlib.sha1(json.dumps([sorted((str(k), v) for k, v in seqs.items()), sorted(pseq.items())], default=str).encode()).hexdigest()[:12]
            hashes.append(h)
            if n >= 3:
                nt.append(h)
            stats["stat_sequences"] = stats.get("stat_sequences", 0) + len(seqs) + sum(len(v) for v in pseq.values())
            for k in kinds.values():
                stats.setdefault("sequence_kinds", {})
                stats["sequence_kinds"][k] = stats["sequence_kinds"].get(k, 0) + 1

            def check(label, v, d, sn):
                exp = {"minimum": min(v), "maximum": max(v), "average": sum(v) / len(v)}
                for st, e in exp.items():
                    g = d.get(st, {}).get(sn)
                    if g is None or not math.isclose(g, e, rel_tol=1e-9, abs_tol=1e-9):
                        viol(f"stat-{st}", f"{label} {sn}: reported {st} {g}, true {st} {e} of samples {[round(x, 3) for x in v[:8]]}{'...' if len(v) > 8 else ''} ({len(v)} samples)")

            for (res, sn), v in seqs.items():
                d = None
                for t, dd in bytype.items():
                    if t.lower().startswith(tmap[res].lower()[:3]):
                        d = dd
                if d is None:
                    viol("stat-type-missing", f"no summary for resource type {res}: types {sorted(bytype)}")
                    continue
                check(res, v, d, sn)
            for pname, sd in pseq.items():
                d = byproc.get(pname)
                if d is None:
                    viol("process-summary-missing", f"no summary for process {pname}")
                    continue
                a, b = win[pname]
                if d.get("samples") != b - a:
                    viol("process-sample-count", f"{pname}: samples={d.get('samples')}, it was sampled in {b - a} of the batch's {n} intervals")
                if b - a < n:
                    stats["processes_alive_in_part_of_the_batch"] = stats.get("processes_alive_in_part_of_the_batch", 0) + 1
                for sn, v in sd.items():
                    check(f"process {pname} (alive in intervals {a}..{b - 1} of {n})", v[a:b], d, sn)
            if len(stats["samples"]) < 2:
                (res, sn), v = next(iter(seqs.items()))
                stats["samples"].append({"part": "stats", "statistic": f"{res}.{sn}", "kind": kinds[(res, sn)], "samples": [round(x, 3) for x in v[:10]], "n": len(v)})
    finally:
        for k, v in orig.items():
            setattr(ResourceMonitor, k, v)
    return hashes, nt


def part_tallies(args, wd, viol, stats):
    from jade.extensions.generic_command import GenericCommandConfiguration, GenericCommandParameters
    from jade.jobs.cluster import Cluster
    from jade.jobs.job_submitter import JobSubmitter
    from jade.jobs.results_aggregator import ResultsAggregator
    from jade.models import HpcConfig, SlurmConfig, SubmitterParams
    from jade.result import Result, ResultsSummary

    rng = random.Random(args["seed"])
    hashes, nt = [], []
    cwd = os.getcwd()
    os.chdir(wd)
    try:
        for case in range(args["count"]):
            shutil.rmtree("out", ignore_errors=True)
            os.makedirs("out")
            n = rng.randint(1, 14)
            cfg = GenericCommandConfiguration()
            classes = {}
            for i in range(n):
                cfg.add_job(GenericCommandParameters(command="true", name=f"j{i}"))
                classes[f"j{i}"] = rng.choice(["successful", "successful", "failed", "canceled", "missing"])
            cfg.assign_default_submission_group(SubmitterParams(hpc_config=HpcConfig(hpc_type="slurm", hpc=SlurmConfig(account="a")), generate_reports=False, resource_monitor_type="none"))
            mgr = JobSubmitter.create(cfg, output="out")
            cluster = Cluster.create("out", mgr.config)
            agg = ResultsAggregator.create("out")
            order = list(classes)
            rng.shuffle(order)
            for name in order:
                c = classes[name]
                if c == "missing":
                    continue
                rc = 0 if c == "successful" else rng.choice([1, 2, 127, 255])
                agg.append_result(Result(name, rc, "canceled" if c == "canceled" else "finished", rng.uniform(0, 100), hpc_job_id=rng.choice([None, "101"])))
            logging.disable(logging.CRITICAL)
            try:
                mgr._handle_completion(cluster)
            except Exception as e:
                viol("completion-crashed", f"completion step raised {e!r} on classes {classes}")
                continue
            data = json.load(open("out/results.json"))
            exp = {"num_successful": 0, "num_failed": 0, "num_canceled": 0, "num_missing": 0}
            for c in classes.values():
                exp["num_" + c] += 1
            got = {k: data["results_summary"].get(k) for k in exp}
            h = hashlib.sha1(json.dumps(sorted(classes.items())).encode()).hexdigest()[:12]
            hashes.append(h)
            if len(set(classes.values())) >= 3:
                nt.append(h)
            stats["result_sets"] = stats.get("result_sets", 0) + 1
            if got != exp:
                viol("summary-counts", f"results.json summary {got} != true tallies {exp}")
            if sorted(data["missing_jobs"]) != sorted(k for k, c in classes.items() if c == "missing"):
                viol("missing-list", f"missing_jobs {data['missing_jobs']} != {sorted(k for k, c in classes.items() if c == 'missing')}")
            names = [r["name"] for r in data["results"]]
            if sorted(names + data["missing_jobs"]) != sorted(classes):
                viol("partition", f"results + missing {sorted(names + data['missing_jobs'])} is not a partition of the jobs")
            buf = io.StringIO()
            with contextlib.redirect_stdout(buf):
                ResultsSummary("out").show_results()
            txt = buf.getvalue()
            shown = {}
            for k, lab in (("num_successful", "Num successful"), ("num_failed", "Num failed"), ("num_canceled", "Num canceled"), ("num_missing", "Num missing")):
                m = re.search(rf"{lab}: (\d+)", txt)
                shown[k] = int(m.group(1)) if m else None
            m = re.search(r"Total: (\d+)", txt)
            if shown != exp or not m or int(m.group(1)) != n:
                viol("show-results-counts", f"show_results prints {shown} total {m.group(1) if m else None}, true tallies {exp} total {n}")
            if len(stats["samples"]) < 3 and len(set(classes.values())) >= 3:
                stats["samples"].append({"part": "tallies", "classes": classes, "summary": got})
    finally:
        os.chdir(cwd)
    return hashes, nt


def chunk(args, ctx, wdir):
    _setup(ctx)
    wd = os.path.join(wdir, "c20")
    shutil.rmtree(wd, ignore_errors=True)
    os.makedirs(wd)
    violations = []
    stats = {"samples": []}

    def viol(key, text):
        violations.append({"prop": "C20", "key": key, "text": text, "step": 0, "epoch": 0})

    fn = {"events": part_events, "stats": part_stats, "tallies": part_tallies}[args["part"]]
    try:
        hashes, nt = fn(args, wd, viol, stats)
    finally:
        logging.disable(logging.CRITICAL)
    shutil.rmtree(wd, ignore_errors=True)
    samples = stats.pop("samples")
    return {"violations": violations[:100], "cases": len(hashes), "case_hashes": [args["part"] + h for h in hashes], "nontrivial_hashes": [args["part"] + h for h in nt], "samples": samples, "stats": stats, "part": args["part"], "error": None}
