"""C08: concurrent result writers and collectors under the deterministic scheduler.

Writers are real processes calling the real ResultsAggregator.append; collectors call the real
ResultsAggregator.load(out).process_results() repeatedly.  Every appended row has a unique name, so a
collected row identifies its write and exactly-once is a multiset comparison.
"""
import csv
import os
import re

from sim.driver import Sim, Inconclusive, is_lock_acquire

HERE = os.path.dirname(os.path.abspath(__file__))
FIELDS = ["name", "return_code", "status", "exec_time_s", "completion_time", "hpc_job_id"]


def expected_row(b, w, i):
    status = "finished" if (i + w) % 5 else "canceled"
    rc = (b + w + i) % 3 if status == "finished" else 1
    return [f"b{b}_w{w}_{i}", rc, status, 1.5 + i + w / 10, 1000.0 + i, str(100 + b)]


def expected_row2(b, i, name):
    status = "finished" if i % 4 else "canceled"
    return [name, (b + i) % 2, status, 2000.5 + i, 5000.0 + i, str(200 + b)]


def prepare(scen, root, ctx):
    os.environ["JADE_REGISTRY"] = ctx["registry"]
    from jade.jobs.results_aggregator import ResultsAggregator

    outname = scen.get("outname", "out")
    os.makedirs(os.path.join(root, outname, "results"))
    cwd = os.getcwd()
    os.chdir(root)
    try:
        ResultsAggregator.create(outname)
    finally:
        os.chdir(cwd)


class S8(Sim):
    def __init__(self, root, scen, seed, ctx, verbose=False):
        scen.setdefault("jobs", [])
        scen.setdefault("groups", [])
        Sim.__init__(self, root, scen, seed, ctx, verbose)
        self.hist = []
        self.parse_checks = 0
        self.recreations = 0
        self.overlaps = 0
        self.node_file_seen = set()
        self.slow = None
        self.slow_seen = set()
        self.slow_count = 0
        self.slow_released = False
        self.slow_jump0 = 0
        self.slow_at = None

    # ---- slow-holder slice: one process stalls inside a lock hold for longer than the lock timeout (300 s).  The waiting
    # processes must fail loudly (filelock.Timeout out of append / process_results); a result whose append returned must
    # still be in the consolidated file exactly once.
    def candidates(self):
        sh = self.scen.get("slow_holder")
        if sh and self.slow is None:
            for a in sorted(self.actors.values(), key=lambda x: x.idx):
                if a.state == "waiting" and a.role == "py" and a.msg.get("k") == "io" and (a.pid, a.n) not in self.slow_seen and self.park_point(a.msg) and self.holds_lock(a):
                    self.slow_seen.add((a.pid, a.n))
                    self.slow_count += 1
                    if self.slow_count == sh:
                        self.slow = a
                        self.slow_jump0 = self.time_jumps
                        self.slow_at = self.point_class(a.msg)
                        self.log("SLOW_HOLDER", a.top, a.host, self.slow_at)
                        break
        cands, sleepers = Sim.candidates(self)
        if self.slow is not None and not self.slow_released:
            rest = [c for c in cands if c[2] is not self.slow]
            if self.time_jumps > self.slow_jump0 or self.slow.state == "dead" or (not rest and not sleepers):
                self.slow_released = True
                self.log("SLOW_HOLDER_RELEASED", self.slow.top, "time jumps", self.time_jumps - self.slow_jump0)
            else:
                cands = rest
        return cands, sleepers

    def on_call_event(self, a, msg):
        self.hist.append({k: v for k, v in msg.items() if k not in ("nb",)})
        self.shared_event(a, msg["k"], msg.get("op", ""))

    def on_io(self, a, msg):
        p = msg.get("p", "")
        base = os.path.basename(p)
        if re.match(r"results_batch_\d+\.csv$", base) and msg.get("ev") == "open" and msg.get("m") == "a":
            if not os.path.exists(p) and base in self.node_file_seen:
                self.recreations += 1  # append finds its node file deleted by a collector: header re-creation path
            self.node_file_seen.add(base)
        if is_lock_acquire(msg) and os.path.exists(p):
            self.overlaps += 1  # contention on a results lock
        Sim.on_io(self, a, msg)

    def parse_check(self):
        lock = os.path.join(self.out, "processed_results.csv.lock")
        if os.path.exists(lock):
            return
        f = os.path.join(self.out, "processed_results.csv")
        try:
            with open(f, newline="") as fh:
                txt = fh.read()
        except FileNotFoundError:
            self.viol("C08", "consolidated-file-missing", "processed_results.csv does not exist while its lock is free")
            return
        self.parse_checks += 1
        if txt and not txt.endswith("\n"):
            self.viol("C08", "partial-line", "consolidated file ends with a partial line while its lock is free")
        lines = txt.splitlines()
        if not lines or lines[0] != ",".join(FIELDS):
            self.viol("C08", "header", f"consolidated file header is {lines[:1]}")
            return
        for r in csv.reader(lines[1:]):
            if len(r) != 6:
                self.viol("C08", "malformed-row", f"consolidated file row {r}")
        try:
            from jade.jobs.results_aggregator import ResultsAggregator

            ResultsAggregator.load(self.outname).get_results_unsafe()
        except Exception as e:
            self.viol("C08", "jade-parser-fails", f"ResultsAggregator cannot parse the consolidated file: {e!r}")

    def drive(self):
        while True:
            if self.steps > 30000:
                raise Inconclusive("step cap")
            self.settle()
            self.parse_check()
            c = self.choose()
            if c is None:
                break
            self.steps += 1
            self.choices.append("a")
            self.step_actor(c[2])

    def resubmission_phase(self, expected, actor):
        """A resubmission prunes some rows of the consolidated file (rewriting it), then the rerun jobs' results are appended and
        collected by a second generation of writers and collectors.  Same exactly-once oracle over the second phase; kept rows
        must still be there, unchanged."""
        from jade.jobs.results_aggregator import ResultsAggregator

        rs = self.scen["resub"]
        names = sorted(expected)
        rng = self.rng
        k = {"none": 0, "all": len(names)}.get(rs["prune"], max(1, int(len(names) * 0.4)))
        pruned = sorted(rng.sample(names, k)) if 0 < k < len(names) else (names if k else [])
        h0 = len(self.hist)
        self.spawn_top("prune", ["vpy", actor, "pruner", ",".join(pruned), self.outname], "login")
        self.settle()
        self.drive()
        kept = {n: expected[n] for n in expected if n not in pruned}
        lst = ResultsAggregator.list_results(self.outname)
        if sorted(x.name for x in lst) != sorted(kept):
            self.viol("C08", "prune-differs", f"after pruning {len(pruned)} of {len(expected)} rows the consolidated results hold {len(lst)} rows, {len(kept)} were to be kept")
        # second generation
        exp2 = {}
        parts = [pruned[i::rs["writers2"]] for i in range(rs["writers2"])]
        for w, part in enumerate(parts):
            if not part:
                continue
            b = 50 + w % 2  # two writers may share a batch file
            for i, n in enumerate(part):
                exp2[n] = expected_row2(b, i, n)
            self.spawn_top(f"rw{w}", ["vpy", actor, "rewriter", str(b), str(w), ",".join(part), self.outname], f"node{b}")
            self.settle()
        for c, rounds in enumerate(rs["collectors2"]):
            self.spawn_top(f"rc{c}", ["vpy", actor, "collector", str(10 + c), str(rounds), self.outname], f"sub{c}")
            self.settle()
        self.drive()
        for tag, rc in self.top_rc.items():
            if rc != 0 and tag.startswith(("prune", "rw", "rc")):
                tail = open(os.path.join(self.root, f"top_{tag}.log")).read()[-300:]
                self.viol("C08", "actor-failed", f"{tag} exited {rc}: {tail}")
        final = ResultsAggregator.load(self.outname).process_results()
        rounds = [[[x.name, x.return_code, x.status, x.exec_time_s, x.completion_time, x.hpc_job_id] for x in final]]
        rounds += [h["rows"] for h in self.hist[h0:] if h["k"] == "ret" and h.get("op") == "collect" and "rows" in h]
        got = [r for rd in rounds for r in rd]
        gn = [r[0] for r in got]
        missing = sorted(set(exp2) - set(gn))
        dup = sorted({n for n in gn if gn.count(n) > 1})
        extra = sorted(set(gn) - set(exp2))
        if missing:
            self.viol("C08", "row-lost", f"after a resubmission: appended rows never reported by any collection: {missing[:6]} ({len(missing)})")
        if dup:
            self.viol("C08", "row-reported-twice", f"after a resubmission: rows reported as new by more than one collection: {dup[:6]}")
        if extra:
            self.viol("C08", "row-from-nowhere", f"after a resubmission: rows reported that nobody appended in this phase: {extra[:6]}")
        for r in got:
            e = exp2.get(r[0])
            if e is not None and [r[0], int(r[1]), r[2], float(r[3]), float(r[4]), str(r[5])] != e:
                self.viol("C08", "row-fields", f"after a resubmission: row {r} differs from what was appended {e}")
        want = dict(kept)
        want.update(exp2)
        lst = ResultsAggregator.list_results(self.outname)
        if sorted(x.name for x in lst) != sorted(want):
            self.viol("C08", "consolidated-differs", f"after a resubmission the consolidated results hold {len(lst)} rows ({len(set(x.name for x in lst))} distinct), expected {len(want)} ({len(kept)} kept + {len(exp2)} new)")
        for x in lst:
            e = want.get(x.name)
            if e is not None and [x.name, x.return_code, x.status, x.exec_time_s, x.completion_time, str(x.hpc_job_id)] != e:
                self.viol("C08", "row-fields", f"after a resubmission: consolidated row {x} differs from what was appended / kept {e}")
        self.parse_check()
        self.resub_done = (len(pruned), len(kept), len(exp2))

    def run(self):
        os.chdir(self.root)
        sc = self.scen
        expected = {}
        k = 0
        actor = os.path.join(HERE, "actor_c08.py")
        for wr in sc["writers"]:
            for i in range(wr["n"]):
                row = expected_row(wr["batch"], wr["w"], i)
                expected[row[0]] = row
            self.spawn_top(f"w{k}", ["vpy", actor, "writer", str(wr["batch"]), str(wr["w"]), str(wr["n"]), self.outname], f"node{wr['batch']}")
            self.settle()  # one hello at a time: the order of arrival decides priorities and must not depend on real time
            k += 1
        for c, rounds in enumerate(sc["collectors"]):
            self.spawn_top(f"c{c}", ["vpy", actor, "collector", str(c), str(rounds), self.outname], f"sub{c}")
            self.settle()
        err = None
        try:
            self.drive()
            for tag, rc in self.top_rc.items():
                if rc != 0:
                    tail = open(os.path.join(self.root, f"top_{tag}.log")).read()[-300:]
                    self.viol("C08", "actor-failed", f"{tag} exited {rc}: {tail}")
            from jade.jobs.results_aggregator import ResultsAggregator

            # loud failures (slow-holder slice only): an append that raised filelock.Timeout appended nothing; a collection
            # that raised it reported nothing although it may already have moved some node files
            loud_appends = {h["row"] for h in self.hist if h["k"] == "ret" and h.get("op") == "append" and h.get("outcome") == "timeout"}
            loud_collects = sum(1 for h in self.hist if h["k"] == "ret" and h.get("op") == "collect" and h.get("outcome") == "timeout")
            self.loud = (len(loud_appends), loud_collects)
            if (loud_appends or loud_collects) and not (self.slow is not None and self.time_jumps > self.slow_jump0):
                self.viol("C08", "lock-timeout", f"lock timeouts without a stalled holder: appends {sorted(loud_appends)[:4]}, collections {loud_collects}")
            for n in loud_appends:
                expected.pop(n, None)
            final = ResultsAggregator.load(self.outname).process_results()
            rounds = [[[x.name, x.return_code, x.status, x.exec_time_s, x.completion_time, x.hpc_job_id] for x in final]]
            rounds += [h["rows"] for h in self.hist if h["k"] == "ret" and h.get("op") == "collect" and "rows" in h]
            got = [r for rd in rounds for r in rd]
            names = [r[0] for r in got]
            missing = sorted(set(expected) - set(names)) if not loud_collects else []
            dup = sorted({n for n in names if names.count(n) > 1})
            extra = sorted(set(names) - set(expected))
            if missing:
                self.viol("C08", "row-lost", f"appended rows never reported by any collection: {missing[:6]} ({len(missing)})")
            if dup:
                self.viol("C08", "row-reported-twice", f"rows reported as new by more than one collection: {dup[:6]} ({len(dup)})")
            if extra:
                self.viol("C08", "row-from-nowhere", f"rows reported that nobody appended: {extra[:6]}")
            for r in got:
                e = expected.get(r[0])
                if e is not None and [r[0], int(r[1]), r[2], float(r[3]), float(r[4]), str(r[5])] != e:
                    self.viol("C08", "row-fields", f"row {r} differs from what was appended {e}")
            lst = ResultsAggregator.list_results(self.outname)
            ln = sorted(x.name for x in lst)
            if ln != sorted(expected):
                self.viol("C08", "consolidated-differs", f"consolidated results hold {len(ln)} rows ({len(set(ln))} distinct), {len(expected)} were appended")
            for x in lst:
                e = expected.get(x.name)
                if e is not None and [x.name, x.return_code, x.status, x.exec_time_s, x.completion_time, str(x.hpc_job_id)] != e:
                    self.viol("C08", "row-fields", f"consolidated row {x} differs from what was appended {e}")
            left = [f for f in os.listdir(os.path.join(self.out, "results")) if f.endswith(".csv")]
            if left:
                self.viol("C08", "node-file-left", f"node files left after the final collection: {left}")
            self.parse_check()
            if sc.get("resub") and not loud_appends and not loud_collects:
                self.resubmission_phase(expected, actor)
        except Inconclusive as e:
            err = f"inconclusive: {e}"
        res = self.result(err)
        res["resub_pruned_kept_new"] = getattr(self, "resub_done", None)
        res.update(rows=len(expected), parse_checks=self.parse_checks, header_recreations=self.recreations, lock_contentions=self.overlaps,
                   collections=sum(1 for h in self.hist if h["k"] == "ret" and h.get("op") == "collect"), history_events=len(self.hist),
                   slow_holder_at=str(self.slow_at) if self.slow_at else None, slow_holder_stalled=bool(self.slow is not None and self.time_jumps > self.slow_jump0),
                   loud_appends=getattr(self, "loud", (0, 0))[0], loud_collections=getattr(self, "loud", (0, 0))[1])
        return res


# ---------------------------------------------------------------------------------------------------------------
# free-running mode (thorough tier): no scheduler, real parallel processes, real clocks.  Covers the one thing the
# serialized model treats as atomic (open -> write -> close of a file, marker creation) with the same exactly-once oracle.
def free_run(args, ctx, wdir):
    import json
    import logging
    import random
    import shutil
    import time

    os.environ["JADE_REGISTRY"] = ctx["registry"]
    logging.disable(logging.CRITICAL)
    from jade.jobs.results_aggregator import ResultsAggregator
    from jade.result import Result

    rng = random.Random(args["seed"])
    violations = []
    hashes, nt = [], []
    samples = []
    tot_rows = tot_coll = 0
    for case in range(args["count"]):
        wd = os.path.join(wdir, "c08free")
        shutil.rmtree(wd, ignore_errors=True)
        os.makedirs(os.path.join(wd, "out", "results"))
        cwd = os.getcwd()
        os.chdir(wd)
        try:
            ResultsAggregator.create("out")
            nb = rng.randint(1, 3)
            writers = [(b, w, rng.randint(5, 40)) for b in range(1, nb + 1) for w in range(rng.randint(1, 3))][:6]
            ncoll = rng.randint(1, 3)
            expected = {}
            for b, w, n in writers:
                for i in range(n):
                    r = expected_row(b, w, i)
                    expected[r[0]] = r
            pids = []
            for b, w, n in writers:
                pid = os.fork()
                if pid == 0:
                    try:
                        for i in range(n):
                            e = expected_row(b, w, i)
                            ResultsAggregator.append("out", Result(e[0], e[1], e[2], e[3], completion_time=e[4], hpc_job_id=e[5]), batch_id=b)
                            if i % 7 == 3:
                                time.sleep(0.001)
                    finally:
                        os._exit(0)
                pids.append(pid)
            cpids = []
            for c in range(ncoll):
                pid = os.fork()
                if pid == 0:
                    code = 0
                    try:
                        agg = ResultsAggregator.load("out")
                        got = []
                        last = False
                        while True:
                            res = agg.process_results()
                            got.append([[x.name, x.return_code, x.status, x.exec_time_s, x.completion_time, x.hpc_job_id] for x in res])
                            if last:
                                break
                            if os.path.exists("stop"):
                                last = True
                            time.sleep(0.002)
                        json.dump(got, open(f"collected_{c}.json", "w"))
                    except BaseException as e:  # noqa
                        open(f"collector_{c}.err", "w").write(repr(e))
                        code = 1
                    finally:
                        os._exit(code)
                cpids.append(pid)
            for pid in pids:
                os.waitpid(pid, 0)
            open("stop", "w").close()
            failed = []
            for pid in cpids:
                _, st = os.waitpid(pid, 0)
                if st != 0:
                    failed.append(st)
            desc = {"writers": writers, "collectors": ncoll, "rows": len(expected)}

            def viol(key, text):
                violations.append({"prop": "C08", "key": key, "text": f"free-running: {text} | case {json.dumps(desc)}", "step": 0, "epoch": 0})

            if failed:
                errs = [open(f).read() for f in os.listdir(".") if f.endswith(".err")]
                viol("collector-failed", f"a collector process failed: {errs[:2]}")
            final = ResultsAggregator.load("out").process_results()
            rounds = [[[x.name, x.return_code, x.status, x.exec_time_s, x.completion_time, x.hpc_job_id] for x in final]]
            ncollections = 0
            for c in range(ncoll):
                try:
                    got = json.load(open(f"collected_{c}.json"))
                    rounds += got
                    ncollections += len(got)
                except (OSError, ValueError):
                    pass
            names = [r[0] for rd in rounds for r in rd]
            missing = sorted(set(expected) - set(names))
            dup = sorted({n_ for n_ in names if names.count(n_) > 1})
            extra = sorted(set(names) - set(expected))
            if missing:
                viol("row-lost", f"{len(missing)} appended rows never reported by any collection, e.g. {missing[:5]}")
            if dup:
                viol("row-reported-twice", f"{len(dup)} rows reported by more than one collection, e.g. {dup[:5]}")
            if extra:
                viol("row-from-nowhere", f"rows nobody appended: {extra[:5]}")
            for rd in rounds:
                for r in rd:
                    e = expected.get(r[0])
                    if e is not None and [r[0], int(r[1]), r[2], float(r[3]), float(r[4]), str(r[5])] != e:
                        viol("row-fields", f"row {r} differs from what was appended {e}")
            lst = ResultsAggregator.list_results("out")
            if sorted(x.name for x in lst) != sorted(expected):
                viol("consolidated-differs", f"consolidated results hold {len(lst)} rows, {len(expected)} were appended")
            txt = open("out/processed_results.csv").read()
            if txt and not txt.endswith("\n"):
                viol("partial-line", "consolidated file ends with a partial line")
            h = f"{args['seed']}:{case}"
            hashes.append(h)
            if ncollections >= 5 and len(writers) >= 2:
                nt.append(h)
            tot_rows += len(expected)
            tot_coll += ncollections
            if len(samples) < 1:
                samples.append(dict(desc, mode="free-running", collections=ncollections))
        finally:
            os.chdir(cwd)
            shutil.rmtree(wd, ignore_errors=True)
    return {"violations": violations[:50], "cases": len(hashes), "case_hashes": hashes, "nontrivial_hashes": nt, "samples": samples, "rows": tot_rows, "collections": tot_coll, "free_running": True, "error": None,
            "sig": f"free{args['seed']}"}
