"""C18 component harness: the SLURM boundary.

(a) submission script vs an independent expectation table, over every subset of optional fields;
(b) scheduler states (whole SLURM vocabulary, hostile whitespace) through a real HpcSubmitter.run() round against a
    scripted `squeue` executable: which ids stay in the persisted active set;
(c) sbatch replies through a real round against a scripted `sbatch`: no id invented, unparsable = failed;
(d) retry sequences of run_command against a scripted flaky command: executions counted at the process boundary.
"""
import hashlib
import itertools
import json
import logging
import os
import random
import re
import shutil
import stat
import time

_setup_done = False

TERMINAL = {"BOOT_FAIL", "CANCELLED", "COMPLETED", "DEADLINE", "FAILED", "NODE_FAIL", "OUT_OF_MEMORY", "PREEMPTED", "REVOKED", "SPECIAL_EXIT", "TIMEOUT", "COMPLETING"}
LIVE = {"PENDING", "CONFIGURING", "RUNNING", "SUSPENDED", "STOPPED", "RESIZING", "REQUEUED", "REQUEUE_HOLD", "REQUEUE_FED", "RESV_DEL_HOLD", "SIGNALING", "STAGE_OUT"}
GARBAGE = ["garbage", "running", "R", "PD", "COMPLETE", "???", "0"]
OPTIONAL = {
    "partition": ["debug", "short"],
    "reservation": ["res1"],
    "qos": ["high", "normal"],
    "gres": ["gpu:1", "gpu:2"],
    "mem": ["4G", "8000"],
    "tmp": ["100G"],
    "nodes": [1, 3],
    "ntasks": [2, 16],
    "ntasks_per_node": [4],
}

SCRIPTED = """#!/bin/bash
# scripted external command: prints $D/<name>.out to stdout, $D/<name>.err to stderr, exits with $D/<name>.rc, counts executions
n=$(basename "$0")
c=$(cat "$VC18/$n.count" 2>/dev/null || echo 0); c=$((c+1)); echo $c > "$VC18/$n.count"
if [ -f "$VC18/$n.seq" ]; then
  IFS=, read -ra S < "$VC18/$n.seq"
  k=${S[$((c-1))]:-${S[-1]}}
  case "$k" in
    0) cat "$VC18/$n.out" 2>/dev/null; exit 0;;
    P) echo "slurm_load_jobs error: Invalid job id specified" >&2; exit 1;;
    *) echo "transient failure $c" >&2; exit "$k";;
  esac
fi
cat "$VC18/$n.out" 2>/dev/null
cat "$VC18/$n.err" 2>/dev/null >&2
exit $(cat "$VC18/$n.rc" 2>/dev/null || echo 0)
"""


def _setup(ctx, wd):
    global _setup_done
    os.environ["JADE_REGISTRY"] = ctx["registry"]
    logging.disable(logging.CRITICAL)
    bind = os.path.join(wd, "bin")
    os.makedirs(bind, exist_ok=True)
    for name in ("squeue", "sbatch", "flaky"):
        p = os.path.join(bind, name)
        with open(p, "w") as f:
            f.write(SCRIPTED)
        os.chmod(p, 0o755)
    if bind not in os.environ["PATH"].split(":"):
        os.environ["PATH"] = bind + ":" + os.environ["PATH"]
    os.environ["VC18"] = os.path.join(wd, "ctl")
    os.makedirs(os.environ["VC18"], exist_ok=True)
    _setup_done = True


def ctl(name, out="", err="", rc=0, seq=None):
    d = os.environ["VC18"]
    for ext in ("out", "err", "rc", "count", "seq"):
        try:
            os.remove(os.path.join(d, f"{name}.{ext}"))
        except OSError:
            pass
    open(os.path.join(d, f"{name}.out"), "w").write(out)
    open(os.path.join(d, f"{name}.err"), "w").write(err)
    open(os.path.join(d, f"{name}.rc"), "w").write(str(rc))
    if seq is not None:
        open(os.path.join(d, f"{name}.seq"), "w").write(",".join(map(str, seq)))


def count(name):
    try:
        return int(open(os.path.join(os.environ["VC18"], f"{name}.count")).read())
    except (OSError, ValueError):
        return 0


# ------------------------------------------------------------------------------------------------ (a)
def part_script(args, wd, viol, stats):
    from jade.hpc.hpc_manager import HpcManager
    from jade.models import HpcConfig, SlurmConfig, SubmissionGroup, SubmitterParams

    rng = random.Random(args["seed"])
    keys = list(OPTIONAL)
    masks = range(1 << len(keys)) if args.get("all_subsets") else [rng.randrange(1 << len(keys)) for _ in range(args["count"])]
    hashes, nt = [], []
    for mask in masks:
        if args.get("all_subsets") and mask % args["nchunks"] != args["chunk"]:
            continue
        opts = {k: rng.choice(OPTIONAL[k]) for i, k in enumerate(keys) if mask >> i & 1}
        account = rng.choice(["acct", "proj-1", "a_b"])
        wall = rng.choice(["4:00:00", "0:30:00", "1-00:00:00", "00:05:00"])
        prefix = rng.choice(["job", "mystudy"])
        name = f"{prefix}_batch_{rng.randint(1, 99)}"
        out = os.path.join(wd, "o")
        shutil.rmtree(out, ignore_errors=True)
        os.makedirs(out)
        grp = SubmissionGroup(name="g", submitter_params=SubmitterParams(hpc_config=HpcConfig(hpc_type="slurm", job_prefix=prefix, hpc=SlurmConfig(account=account, walltime=wall, **opts))))
        # the batch's group is one of 1-3 groups with different SLURM settings, at a random position
        groups = {}
        others = rng.randint(0, 2)
        pos = rng.randint(0, others)
        for gi in range(others + 1):
            if gi == pos:
                groups["g"] = grp
            else:
                o2 = {k: rng.choice(OPTIONAL[k]) for k in keys if rng.random() < 0.4}
                groups[f"other{gi}"] = SubmissionGroup(name=f"other{gi}", submitter_params=SubmitterParams(hpc_config=HpcConfig(hpc_type="slurm", job_prefix="x", hpc=SlurmConfig(account=f"otheracct{gi}", walltime="9:09:09", **o2))))
        stats["scripts_for_a_non_first_group"] = stats.get("scripts_for_a_non_first_group", 0) + (1 if pos > 0 else 0)
        mgr = HpcManager(groups, out)
        run_script = os.path.join(out, "run_batch_7.sh")
        job_id, status = mgr.submit(out, name, run_script, "g", dry_run=True)
        txt = open(os.path.join(out, name + ".sh")).read()
        got = {}
        for line in txt.splitlines():
            m = re.match(r"#SBATCH --([A-Za-z_\-]+)=(.*)$", line)
            if m:
                got.setdefault(m.group(1).replace("_", "-"), []).append(m.group(2))
            elif line.startswith("#SBATCH"):
                viol("script-line", f"unparsable #SBATCH line {line!r}")
        exp = {"account": [account], "job-name": [name], "time": [wall], "output": [f"{out}/job_output_%j.o"], "error": [f"{out}/job_output_%j.e"]}
        for k, v in opts.items():
            exp[k.replace("_", "-")] = [str(v)]
        if not any(k in opts for k in ("nodes", "ntasks", "ntasks_per_node")):
            exp["nodes"] = ["1"]
        if got != exp:
            viol("script-params", f"#SBATCH lines {got} != configured {exp}")
        lines = [l for l in txt.splitlines() if l.strip()]
        if not lines or lines[0] != "#!/bin/bash" or lines[-1] != f"srun {run_script}":
            viol("script-frame", f"first/last line {lines[:1]} / {lines[-1:]} (expected shebang and 'srun {run_script}')")
        stats["scripts"] = stats.get("scripts", 0) + 1
        h = hashlib.sha1(json.dumps([opts, account, wall, name], sort_keys=True).encode()).hexdigest()[:12]
        hashes.append(h)
        if len(opts) >= 2:
            nt.append(h)
        if len(stats["samples"]) < 1 and len(opts) >= 3:
            stats["samples"].append({"part": "script", "optional_fields": opts, "script": txt})
    return hashes, nt


# ------------------------------------------------------------------------------------------------ (b), (c)
def make_cluster(wd, njobs, ids, submitted):
    from jade.extensions.generic_command import GenericCommandConfiguration, GenericCommandParameters
    from jade.jobs.cluster import Cluster
    from jade.jobs.job_submitter import JobSubmitter
    from jade.jobs.results_aggregator import ResultsAggregator
    from jade.models import HpcConfig, SlurmConfig, SubmitterParams

    out = os.path.join(wd, "out")
    shutil.rmtree(out, ignore_errors=True)
    os.makedirs(out)
    cfg = GenericCommandConfiguration()
    for i in range(njobs):
        cfg.add_job(GenericCommandParameters(command="true", name=f"j{i}"))
    cfg.assign_default_submission_group(SubmitterParams(hpc_config=HpcConfig(hpc_type="slurm", hpc=SlurmConfig(account="a")), per_node_batch_size=1, poll_interval=0, generate_reports=False, resource_monitor_type="none"))
    mgr = JobSubmitter.create(cfg, output="out")
    cluster = Cluster.create("out", mgr.config)
    ResultsAggregator.create("out")
    if ids or submitted:
        jobs = [j for j in cluster.iter_jobs()][:submitted]
        cluster.update_job_status(jobs, [], [], set(), list(ids), 1 + len(ids))
    cluster.demote_from_submitter()
    return mgr


def one_round(wd):
    from jade.hpc.hpc_submitter import HpcSubmitter
    from jade.jobs.cluster import Cluster
    from jade.jobs.job_submitter import JobSubmitter

    cluster, promoted = Cluster.deserialize("out", try_promote_to_submitter=True, deserialize_jobs=True)
    assert promoted
    mgr = JobSubmitter.load("out")
    err = None
    try:
        HpcSubmitter(mgr.config, mgr._config_file, cluster, "out").run()
    except BaseException as e:  # noqa
        err = e
    finally:
        try:
            cluster.demote_from_submitter()
        except Exception:
            pass
    try:
        os.remove("out/submitter.lock")
    except OSError:
        pass
    after, _ = Cluster.deserialize("out", deserialize_jobs=True)
    return err, list(after.job_status.hpc_job_ids), after


def ws(rng):
    return rng.choice([" ", "  ", "\t", " \t ", "        "])


def part_status(args, wd, viol, stats):
    rng = random.Random(args["seed"])
    hashes, nt = [], []
    cwd = os.getcwd()
    os.chdir(wd)
    try:
        for _ in range(args["count"]):
            n = rng.randint(1, 5)
            ids = [str(rng.randint(100, 99999)) for _ in range(n)]
            ids = list(dict.fromkeys(ids))
            states = {}
            lines = []
            for i in ids:
                kind = rng.choice(["live", "live", "terminal", "absent", "garbage"])
                if kind == "absent":
                    states[i] = None
                    continue
                st = rng.choice(sorted(LIVE)) if kind == "live" else rng.choice(sorted(TERMINAL)) if kind == "terminal" else rng.choice(GARBAGE)
                states[i] = st
                lines.append(rng.choice(["", " ", "\t", "   "]) + i + ws(rng) + st + rng.choice(["", " ", "  \t"]))
            # other users' / other submissions' jobs in the listing
            for _x in range(rng.randint(0, 2)):
                lines.append(f"{rng.randint(100000, 999999)}{ws(rng)}{rng.choice(sorted(LIVE | TERMINAL))}")
            rng.shuffle(lines)
            sep = "\n"
            text = sep.join(lines) + (sep if lines and rng.random() < 0.9 else "")
            if rng.random() < 0.2:
                text = "\n" + text + "\n\n"
            make_cluster(wd, n, ids, n)
            ctl("squeue", out=text)
            err, active, _ = one_round(wd)
            stats["status_rounds"] = stats.get("status_rounds", 0) + 1
            h = hashlib.sha1(json.dumps([ids, states, text]).encode()).hexdigest()[:12]
            hashes.append(h)
            if any(s in LIVE or s in GARBAGE for s in states.values()) and any(s is None or s in TERMINAL for s in states.values()):
                nt.append(h)
            if count("squeue") < 1:
                viol("squeue-not-called", "a round with active ids did not ask the scheduler")
            if err is not None:
                stats["status_rounds_aborted"] = stats.get("status_rounds_aborted", 0) + 1
                if sorted(active) != sorted(ids):
                    viol("aborted-round-changed-ids", f"round aborted with {err!r} but the active set changed {ids} -> {active}")
                continue
            for i in ids:
                st = states[i]
                if (st in LIVE or st in GARBAGE) and i not in active:
                    viol("live-batch-treated-as-finished", f"batch {i} reported as {st!r} was dropped from the active set (squeue output {text!r})")
                if st is None and i in active:
                    viol("absent-batch-kept", f"batch {i} absent from squeue is still active")
                stats.setdefault("states_seen", set()).add(st or "(absent)")
            extra = [i for i in active if i not in ids]
            if extra:
                viol("id-invented", f"active set contains {extra} which were never submitted")
            if len(stats["samples"]) < 2 and len(ids) >= 3:
                stats["samples"].append({"part": "status", "squeue_output": text, "ids_before": ids, "ids_after": active})
    finally:
        os.chdir(cwd)
    return hashes, nt


REPLIES = [
    ("Submitted batch job {id}\n", 0, True),
    ("sbatch: Submitted batch job {id}\n", 0, True),
    ("Submitted batch job {id} on cluster c1\n", 0, True),
    ("  Submitted batch job {id}  \n\n", 0, True),
    ("Submitted batch job\n", 0, False),
    ("Submitted batch job abc\n", 0, False),
    ("", 0, False),
    ("queued\n", 0, False),
    ("{id}\n", 0, False),
    ("Submitted batch job {id}\n", 1, False),
    ("sbatch: error: Batch job submission failed: Invalid account\n", 1, False),
    ("submitted batch job {id}\n", 0, False),
]


def part_submit(args, wd, viol, stats):
    rng = random.Random(args["seed"])
    hashes, nt = [], []
    cwd = os.getcwd()
    os.chdir(wd)
    real_sleep = time.sleep
    time.sleep = lambda s: None  # the 10-s retry delays of a failing sbatch are irrelevant here
    try:
        for _ in range(args["count"]):
            tmpl, rc, ok = rng.choice(REPLIES)
            jid = str(rng.randint(1, 10**8))
            text = tmpl.format(id=jid)
            to_err = rc != 0 and rng.random() < 0.5
            make_cluster(wd, 1, [], 0)
            ctl("sbatch", out="" if to_err else text, err=text if to_err else "", rc=rc)
            ctl("squeue", out="")
            err, active, after = one_round(wd)
            stats["submit_rounds"] = stats.get("submit_rounds", 0) + 1
            h = hashlib.sha1(json.dumps([text, rc, to_err]).encode()).hexdigest()[:12]
            hashes.append(h)
            if not ok:
                nt.append(h)
            n = count("sbatch")
            if n < 1:
                viol("sbatch-not-called", "a round with an unsubmitted job did not call sbatch")
            if n > 7:
                viol("too-many-retries", f"sbatch executed {n} times (6 retries configured)")
            if ok and rc == 0:
                if n != 1:
                    viol("retry-after-success", f"sbatch executed {n} times although the first call succeeded")
                if active != [jid]:
                    viol("id-not-recorded", f"reply {text!r}: active set {active}, expected [{jid}]")
            else:
                if active:
                    viol("failed-submission-active", f"reply {text!r} rc={rc}: batch treated as submitted, active set {active}")
                if rc != 0 and n != 7:
                    viol("retry-count", f"failing sbatch executed {n} times, expected 1 + 6 retries")
            if len(stats["samples"]) < 3 and not ok:
                stats["samples"].append({"part": "submit", "sbatch_reply": text, "rc": rc, "executions": n, "active_after": active})
    finally:
        time.sleep = real_sleep
        os.chdir(cwd)
    return hashes, nt


# ------------------------------------------------------------------------------------------------ (d)
def part_retries(args, wd, viol, stats):
    from jade.utils.run_command import run_command

    rng = random.Random(args["seed"])
    hashes, nt = [], []
    for _ in range(args["count"]):
        seq = [rng.choice([0, 1, 1, 2, "P"]) for _ in range(rng.randint(1, 8))]
        retries = rng.randint(0, 7)
        use_out = rng.random() < 0.75
        errs = ["Invalid job id specified"] if (use_out and rng.random() < 0.6) else None
        ctl("flaky", out="ok\n", seq=seq)
        out = {} if use_out else None
        kw = {}
        if errs:
            kw["error_strings"] = errs
        ret = run_command("flaky --x 1", out, num_retries=retries, retry_delay_s=0, **kw)
        execs = count("flaky")
        exp = 0
        for i in range(retries + 1):
            c = seq[i] if i < len(seq) else seq[-1]
            exp += 1
            if c == 0:
                break
            if c == "P" and errs and retries > 0:
                break
        last = seq[exp - 1] if exp - 1 < len(seq) else seq[-1]
        stats["retry_sequences"] = stats.get("retry_sequences", 0) + 1
        h = hashlib.sha1(json.dumps([seq, retries, use_out, errs]).encode()).hexdigest()[:12]
        hashes.append(h)
        if retries >= 1 and any(c != 0 for c in seq[:1]):
            nt.append(h)
        if execs > retries + 1:
            viol("too-many-executions", f"sequence {seq}, retries={retries}: executed {execs} times")
        if execs != exp:
            viol("execution-count", f"sequence {seq}, retries={retries}, permanent-error list={errs}: executed {execs} times, expected {exp}")
        if (ret == 0) != (last == 0):
            viol("return-code", f"sequence {seq}, retries={retries}: returned {ret}, last execution exited {last}")
        if use_out and last == 0 and out.get("stdout") != "ok\n":
            viol("output", f"stdout of the successful execution not returned: {out}")
        if len(stats["samples"]) < 4 and "P" in seq and errs:
            stats["samples"].append({"part": "retries", "sequence": seq, "retries": retries, "error_strings": errs, "executions": execs, "returned": ret})
    return hashes, nt


def chunk(args, ctx, wdir):
    wd = os.path.join(wdir, "c18")
    shutil.rmtree(wd, ignore_errors=True)
    os.makedirs(wd)
    _setup(ctx, wd)
    violations = []
    stats = {"samples": []}

    def viol(key, text):
        violations.append({"prop": "C18", "key": key, "text": text, "step": 0, "epoch": 0})

    fn = {"script": part_script, "status": part_status, "submit": part_submit, "retries": part_retries}[args["part"]]
    hashes, nt = fn(args, wd, viol, stats)
    shutil.rmtree(wd, ignore_errors=True)
    samples = stats.pop("samples")
    if "states_seen" in stats:
        stats["states_seen"] = sorted(stats["states_seen"])
    return {"violations": violations[:100], "cases": len(hashes), "case_hashes": [args["part"] + h for h in hashes], "nontrivial_hashes": [args["part"] + h for h in nt], "samples": samples, "stats": stats, "part": args["part"], "error": None}
