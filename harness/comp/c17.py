"""C17 component harness: configuration round trip and up-front rejection, on the real functions.

Generator over the public job / group models; monitor on dump() -> create_config_from_file() and on
JobSubmitter.run_submit_jobs with a recording stand-in at the sbatch boundary.
"""
import copy
import hashlib
import json
import logging
import os
import random
import shutil
import string

_setup_done = False
_calls = []

NAME_FIRST = string.ascii_letters + string.digits
NAME_REST = NAME_FIRST + "_.-"
CMD_ALPHA = string.ascii_letters + string.digits + "  -_./=:,'\"\\$*?;|&#~{}()<>!%é"


def _setup(ctx):
    global _setup_done
    if _setup_done:
        return
    os.environ["JADE_REGISTRY"] = ctx["registry"]
    logging.disable(logging.CRITICAL)
    from jade.enums import Status
    from jade.hpc.common import HpcJobStatus
    from jade.hpc.slurm_manager import SlurmManager

    def fake_submit(self, filename):
        _calls.append(filename)
        return Status.GOOD, str(1000 + len(_calls)), ""

    SlurmManager.submit = fake_submit
    SlurmManager.check_statuses = lambda self: {str(1000 + i): HpcJobStatus.RUNNING for i in range(1, 400)}
    _setup_done = True


def gen_case(rng):
    n = rng.randint(1, 8)
    ngroups = rng.choice([1, 1, 2, 3])
    use_default = ngroups == 1 and rng.random() < 0.5
    groups = []
    max_nodes = rng.choice([None, 1, 4])
    poll = rng.choice([1, 10, 60])
    for g in range(ngroups):
        tb = rng.random() < 0.3
        wall_h = rng.randint(1, 4)
        opts = {}
        for k, vals in (("partition", ["debug", "short"]), ("qos", ["high"]), ("mem", ["4G", "8000"]), ("tmp", ["100G"]), ("reservation", ["r1"]), ("gres", ["gpu:1", "gpu:2"]), ("ntasks", [2]), ("nodes", [1, 2])):
            if rng.random() < 0.2:
                opts[k] = rng.choice(vals)
        groups.append(
            {
                "name": "default" if use_default else f"grp{g}",
                "tb": tb,
                "batch": 0 if tb and rng.random() < 0.5 else rng.randint(1, 50),
                "procs": rng.choice([1, 2, 4]) if tb or rng.random() < 0.5 else None,
                "wall": f"{wall_h}:00:00",
                "wall_min": wall_h * 60,
                "try_add": rng.random() < 0.5,
                "verbose": rng.random() < 0.3,
                "account": "acct" + str(g),
                "prefix": rng.choice(["job", "x" + str(g)]),
                "opts": opts,
                "dsub": rng.random() < 0.8,
                # optional submitter settings incl. the ones whose None is meaningful (None = monitoring disabled)
                "rm_interval": rng.choice([None, None, 5, 10, 30]),
                "rm_stats": rng.choice([None, {"cpu": True, "memory": False, "disk": True, "network": False, "process": True}]),
                "dry_run": False,
                "node_setup_script": rng.choice([None, None, "setup.sh"]),
            }
        )
    jobs = []
    names = []
    for i in range(n):
        unnamed = rng.random() < 0.25
        if unnamed:
            name = None
            eff = str(i + 1)  # JADE uses the job id (1-based, in order of addition)
        else:
            name = rng.choice(NAME_FIRST) + "".join(rng.choice(NAME_REST) for _ in range(rng.randint(0, 8)))
            while name in names or name.isdigit():
                name += rng.choice(NAME_FIRST)
            eff = name
        bl = []
        for k, prev in enumerate(names):
            if rng.random() < 0.25:
                # integer blockers are allowed for jobs that are named by their id
                bl.append(int(prev) if prev.isdigit() and rng.random() < 0.7 else prev)
        grp = rng.choice(groups)
        est = rng.randint(1, grp["wall_min"]) if (grp["tb"] or rng.random() < 0.4) else None
        cmd = "".join(rng.choice(CMD_ALPHA) for _ in range(rng.randint(1, 30))).strip() or "true"
        jobs.append(
            {
                "name": name,
                "eff": eff,
                "command": cmd,
                "blocked_by": bl,
                "flag": rng.random() < 0.4,
                "group": grp["name"],
                "est": est,
                "append_job_name": rng.random() < 0.3,
                "append_output_dir": rng.random() < 0.3,
                "ext": rng.choice([{}, {}, {"k": [1, 2, {"z": None}], "s": "é\"q"}]),
            }
        )
        names.append(eff)
    life = {k: (rng.choice(["true", "/bin/true --x=1 'q r'", "echo 'a b'"]) if rng.random() < 0.3 else None) for k in ("setup_command", "teardown_command", "node_setup_command", "node_teardown_command")}
    return {"jobs": jobs, "groups": groups, "max_nodes": max_nodes, "poll": poll, "life": life, "use_default": use_default, "assign": rng.choice([0, 0, 1, 2])}


def build(case):
    from jade.extensions.generic_command import GenericCommandConfiguration, GenericCommandParameters
    from jade.models import HpcConfig, SlurmConfig, SubmissionGroup, SubmitterParams

    cfg = GenericCommandConfiguration(**{k: v for k, v in case["life"].items() if v is not None})
    for j in case["jobs"]:
        kw = dict(command=j["command"], blocked_by=set(j["blocked_by"]), cancel_on_blocking_job_failure=j["flag"], append_job_name=j["append_job_name"], append_output_dir=j["append_output_dir"], ext=j["ext"])
        if j["name"] is not None:
            kw["name"] = j["name"]
        if j["est"] is not None:
            kw["estimated_run_minutes"] = j["est"]
        if not case["use_default"]:
            kw["submission_group"] = j["group"]
        if case.get("assign"):
            # the other documented way of building a job: create it, then set its attributes (what JADE's own integration
            # tests do with `job.blocked_by = set([1, 2])`)
            late = {k: kw.pop(k) for k in ("blocked_by", "cancel_on_blocking_job_failure", "append_job_name", "append_output_dir", "estimated_run_minutes", "submission_group") if k in kw}
            job = GenericCommandParameters(**kw)
            for k, v in late.items():
                setattr(job, k, list(v) if k == "blocked_by" and case["assign"] == 2 else v)
            cfg.add_job(job)
            continue
        cfg.add_job(GenericCommandParameters(**kw))
    sps = []
    for g in case["groups"]:
        hpc = HpcConfig(hpc_type="slurm", job_prefix=g["prefix"], hpc=SlurmConfig(account=g["account"], walltime=g["wall"], **g["opts"]))
        sp = SubmitterParams(
            hpc_config=hpc,
            per_node_batch_size=g["batch"],
            time_based_batching=g["tb"],
            num_processes=g["procs"],
            try_add_blocked_jobs=g["try_add"],
            max_nodes=case["max_nodes"],
            poll_interval=case["poll"],
            generate_reports=False,
            verbose=g["verbose"],
            distributed_submitter=g["dsub"],
            resource_monitor_type="none",
            resource_monitor_interval=g["rm_interval"],
            node_setup_script=g["node_setup_script"],
            **({"resource_monitor_stats": g["rm_stats"]} if g["rm_stats"] else {}),
        )
        sps.append(sp)
        if case["use_default"]:
            cfg.assign_default_submission_group(sp)
        else:
            cfg.append_submission_group(SubmissionGroup(name=g["name"], submitter_params=sp))
    return cfg


def norm(x):
    if isinstance(x, (set, frozenset)):
        return sorted(norm(v) for v in x)
    if isinstance(x, dict):
        return {k: norm(v) for k, v in x.items()}
    if isinstance(x, (list, tuple)):
        return [norm(v) for v in x]
    if hasattr(x, "value") and x.__class__.__module__.startswith("jade"):
        return x.value
    return x


def check_roundtrip(case, cfg, loaded, viol):
    a = list(cfg.iter_jobs())
    b = list(loaded.iter_jobs())
    if [j.name for j in a] != [j.name for j in b]:
        viol("job-order", f"job order/names changed: {[j.name for j in a]} -> {[j.name for j in b]}")
        return
    exp_names = [j["eff"] for j in case["jobs"]]
    if [j.name for j in b] != exp_names:
        viol("job-names", f"names {[j.name for j in b]} != generated {exp_names}")
    for ja, jb, gj in zip(a, b, case["jobs"]):
        # the configuration as built, through the same public accessors JADE's own checks and submitters use
        got_mem = {"blocked_by": sorted(ja.get_blocking_jobs(), key=str), "cancel_on_blocking_job_failure": ja.cancel_on_blocking_job_failure, "submission_group": ja.submission_group, "estimated_run_minutes": ja.estimated_run_minutes}
        want_mem = {"blocked_by": sorted((str(x) for x in gj["blocked_by"]), key=str), "cancel_on_blocking_job_failure": gj["flag"], "submission_group": gj["group"], "estimated_run_minutes": gj["est"]}
        if got_mem != want_mem:
            viol("job-fields-as-built", f"job {ja.name}: generated vs built configuration {({k: (want_mem[k], got_mem[k]) for k in want_mem if want_mem[k] != got_mem[k]})} (built by {'attribute assignment' if case.get('assign') else 'constructor arguments'})")
        want = {
            "command": gj["command"],
            "blocked_by": sorted(str(x) for x in gj["blocked_by"]),
            "cancel_on_blocking_job_failure": gj["flag"],
            "submission_group": gj["group"],
            "estimated_run_minutes": gj["est"],
            "append_job_name": gj["append_job_name"],
            "append_output_dir": gj["append_output_dir"],
            "ext": gj["ext"],
        }
        got = {
            "command": jb.model.command,
            "blocked_by": sorted(jb.get_blocking_jobs()),
            "cancel_on_blocking_job_failure": jb.cancel_on_blocking_job_failure,
            "submission_group": jb.submission_group,
            "estimated_run_minutes": jb.estimated_run_minutes,
            "append_job_name": jb.model.append_job_name,
            "append_output_dir": jb.model.append_output_dir,
            "ext": jb.model.ext,
        }
        if got != want:
            diff = {k: (want[k], got[k]) for k in want if want[k] != got[k]}
            viol("job-fields", f"job {jb.name}: generated vs reloaded {diff}")
        if norm(ja.serialize()) != norm(jb.serialize()):
            viol("job-serialize", f"job {jb.name}: serialize() differs after the round trip")
    for k, v in case["life"].items():
        if getattr(loaded, k) != v:
            viol("lifecycle-command", f"{k}: {v!r} -> {getattr(loaded, k)!r}")
    ga = [norm(g.dict()) for g in cfg.submission_groups]
    gb = [norm(g.dict()) for g in loaded.submission_groups]
    if ga != gb:
        viol("submission-groups", f"submission groups differ after the round trip: {ga} -> {gb}")
    # field by field against what was GENERATED (dict() of both sides could hide a value that serialization drops)
    gen = {g["name"]: g for g in case["groups"]}
    for grp in loaded.submission_groups:
        g = gen.get(grp.name)
        if g is None:
            viol("submission-groups", f"group {grp.name} appeared after the round trip")
            continue
        sp = grp.submitter_params
        want = {"per_node_batch_size": g["batch"], "time_based_batching": g["tb"], "num_parallel_processes_per_node": g["procs"], "try_add_blocked_jobs": g["try_add"],
                "max_nodes": case["max_nodes"], "poll_interval": case["poll"], "verbose": g["verbose"], "distributed_submitter": g["dsub"], "resource_monitor_interval": g["rm_interval"],
                "node_setup_script": g["node_setup_script"], "generate_reports": False, "dry_run": False}
        got = {k: getattr(sp, k) for k in want}
        if got != want:
            diff = {k: (want[k], got[k]) for k in want if want[k] != got[k]}
            viol("group-fields", f"group {grp.name}: generated vs reloaded submitter parameters {diff}")
        if g["rm_stats"] and norm(sp.resource_monitor_stats.dict()) != dict(g["rm_stats"], include_child_processes=True, recurse_child_processes=False):
            viol("group-fields", f"group {grp.name}: resource_monitor_stats {sp.resource_monitor_stats.dict()} != generated {g['rm_stats']}")
        hp = sp.hpc_config
        wanth = dict({"account": g["account"], "walltime": g["wall"]}, **g["opts"])
        goth = {k: getattr(hp.hpc, k) for k in wanth}
        if goth != wanth or hp.job_prefix != g["prefix"]:
            viol("group-fields", f"group {grp.name}: HPC parameters {goth} prefix {hp.job_prefix} != generated {wanth} prefix {g['prefix']}")
    sa, sb = norm(cfg.serialize()), norm(loaded.serialize())
    if sa != sb:
        keys = [k for k in sa if sa.get(k) != sb.get(k)]
        viol("config-serialize", f"serialize() differs after the round trip in {keys}")


INJECTIONS = ["dangling_blocker", "duplicate_name", "duplicate_job_id", "unknown_group", "no_group", "duplicate_group", "max_nodes_differ", "poll_differs", "hpc_type_differs", "estimate_above_walltime"]


def inject(kind, data, rng):
    """Mutate the dumped configuration (dict) with one invalidity; return False if it does not apply."""
    jobs = data["jobs"]
    groups = data["submission_groups"]
    if kind == "dangling_blocker":
        j = rng.choice(jobs)
        j["blocked_by"] = list(j.get("blocked_by", [])) + ["no_such_job_xyz"]
    elif kind == "duplicate_name":
        if len(jobs) < 2:
            return False
        a, b = rng.sample(jobs, 2)
        nm = a.get("name") if a.get("name") is not None else str(a["job_id"])
        b["name"] = nm
    elif kind == "duplicate_job_id":
        # two unnamed entries with one job_id (a copy-pasted entry in a hand-edited file): both are named str(job_id)
        un = [j for j in jobs if j.get("name") is None and j.get("job_id") is not None]
        if not un:
            return False
        a = rng.choice(un)
        if len(un) >= 2 and rng.random() < 0.5:
            b = rng.choice([j for j in un if j is not a])
            b["job_id"] = a["job_id"]
        else:
            jobs.insert(rng.randint(0, len(jobs)), copy.deepcopy(a))
    elif kind == "unknown_group":
        rng.choice(jobs)["submission_group"] = "no_such_group"
    elif kind == "no_group":
        if any(g["name"] == "default" for g in groups):
            return False
        rng.choice(jobs).pop("submission_group", None)  # falls back to the default name, which does not exist here
    elif kind == "duplicate_group":
        if len(groups) < 2:
            return False
        groups[1]["name"] = groups[0]["name"]
        for j in jobs:
            if j.get("submission_group") not in {g["name"] for g in groups}:
                j["submission_group"] = groups[0]["name"]
    elif kind == "max_nodes_differ":
        if len(groups) < 2:
            return False
        base = groups[0]["submitter_params"].get("max_nodes")
        k = rng.randrange(len(groups))  # any one group may be the odd one out, the first included; unset is a value too
        groups[k]["submitter_params"]["max_nodes"] = rng.choice([(base or 0) + 3, None]) if base is not None else (base or 0) + 3
    elif kind == "poll_differs":
        if len(groups) < 2:
            return False
        groups[rng.randrange(len(groups))]["submitter_params"]["poll_interval"] = groups[0]["submitter_params"]["poll_interval"] + 7
    elif kind == "hpc_type_differs":
        if len(groups) < 2:
            return False
        groups[-1]["submitter_params"]["hpc_config"] = {"hpc_type": "local", "job_prefix": "job", "hpc": {}}
    elif kind == "estimate_above_walltime":
        # just above the walltime of the job's OWN group (other groups may allow more)
        j = rng.choice(jobs)
        gname = j.get("submission_group", "default")
        g = next(g_ for g_ in groups if g_["name"] == gname)
        h, m_, s_ = (int(x) for x in g["submitter_params"]["hpc_config"]["hpc"]["walltime"].split(":"))
        j["estimated_run_minutes"] = h * 60 + m_ + rng.choice([1, 1, 30, 100000])
    return True


def try_submit(config_file, wd):
    """Load and submit through the real entry point; returns (exception or None, number of sbatch calls)."""
    from jade.jobs.job_configuration_factory import create_config_from_file
    from jade.jobs.job_submitter import JobSubmitter

    import signal

    class Hang(Exception):
        pass

    def on_alarm(signum, frame):
        raise Hang("submission did not return within 30 s (wall-clock watchdog)")

    out = os.path.join(wd, "out")
    shutil.rmtree(out, ignore_errors=True)
    _calls.clear()
    cwd = os.getcwd()
    os.chdir(wd)
    old_h = signal.signal(signal.SIGALRM, on_alarm)
    signal.alarm(30)
    try:
        try:
            cfg = create_config_from_file(config_file)
            ret = JobSubmitter.run_submit_jobs(cfg, "out")
            return None, len(_calls), ret
        except Hang as e:
            return None, len(_calls), f"HANG: {e}"
        except BaseException as e:  # noqa
            return e, len(_calls), None
    finally:
        signal.alarm(0)
        signal.signal(signal.SIGALRM, old_h)
        os.chdir(cwd)


def chunk(args, ctx, wdir):
    _setup(ctx)
    from jade.exceptions import InvalidConfiguration
    from jade.jobs.job_configuration_factory import create_config_from_file

    wd = os.path.join(wdir, "c17")
    shutil.rmtree(wd, ignore_errors=True)
    os.makedirs(wd)
    rng = random.Random(args["seed"])
    violations = []
    hashes, nt = [], []
    samples = []
    exc_types = {}
    ncases = ninj = nacc = 0
    inj_counts = {}
    for _ in range(args["count"]):
        case = gen_case(rng)
        h = hashlib.sha1(json.dumps(case, sort_keys=True, default=str).encode()).hexdigest()[:12]
        hashes.append(h)
        ncases += 1
        desc = {"jobs": [{k: j[k] for k in ("name", "command", "blocked_by", "group", "est")} for j in case["jobs"]], "groups": [g["name"] for g in case["groups"]]}

        def viol(key, text, _d=desc):
            violations.append({"prop": "C17", "key": key, "text": f"{text} | case {json.dumps(_d, default=str)[:600]}", "step": 0, "epoch": 0})

        try:
            cfg = build(case)
        except Exception as e:
            viol("valid-config-rejected-at-construction", f"{e!r}")
            continue
        f = os.path.join(wd, "config.json")
        cfg.dump(f)
        try:
            loaded = create_config_from_file(f)
        except Exception as e:
            viol("valid-config-unloadable", f"{e!r}")
            continue
        check_roundtrip(case, cfg, loaded, viol)
        try:  # the checks a submitter runs, on the configuration as built (submission from an existing Python process)
            cfg.check_job_dependencies()
            cfg.check_job_runtimes()
        except Exception as e:
            viol("valid-config-rejected-as-built", f"{e!r} (built by {'attribute assignment' if case.get('assign') else 'constructor arguments'})")
        if len(case["jobs"]) >= 2 and (len(case["groups"]) >= 2 or any(j["blocked_by"] for j in case["jobs"])):
            nt.append(h)
            if len(samples) < 2:
                samples.append(desc)
        # acceptance of the valid configuration
        exc, ncalls, ret = try_submit(f, wd)
        nacc += 1
        if exc is not None:
            viol("valid-config-rejected", f"valid configuration rejected with {exc!r}")
        elif isinstance(ret, str) and ret.startswith("HANG"):
            viol("valid-config-hangs", f"submission of a valid configuration hangs: {ret}")
        elif ncalls < 1:
            viol("valid-config-not-submitted", f"valid configuration accepted (ret={ret}) but nothing was handed to the HPC")
        # each single injected invalidity
        data0 = json.load(open(f))
        for kind in INJECTIONS:
            data = copy.deepcopy(data0)
            if not inject(kind, data, rng):
                continue
            fi = os.path.join(wd, "bad.json")
            json.dump(data, open(fi, "w"))
            exc, ncalls, ret = try_submit(fi, wd)
            ninj += 1
            inj_counts[kind] = inj_counts.get(kind, 0) + 1
            if exc is None:
                viol("invalid-config-accepted", f"{kind}: accepted (ret={ret}, sbatch calls={ncalls})")
            else:
                exc_types[type(exc).__name__] = exc_types.get(type(exc).__name__, 0) + 1
                if ncalls:
                    viol("rejected-after-sbatch", f"{kind}: {type(exc).__name__} raised after {ncalls} sbatch calls")
                if not isinstance(exc, (InvalidConfiguration, ValueError)):
                    viol("rejected-with-unexpected-error", f"{kind}: rejected with {exc!r} instead of a configuration error")
        if len(violations) > 100:
            break
    shutil.rmtree(wd, ignore_errors=True)
    return {"violations": violations, "cases": ncases, "case_hashes": hashes, "nontrivial_hashes": nt, "samples": samples, "injections": ninj, "acceptances": nacc, "exc_types": exc_types, "inj_counts": inj_counts, "error": None}
