"""C08 component actor: a job runner appending results, or a submitter round collecting them.
Runs under the scheduler (agent active); call/return events are recorded at this boundary."""
import json
import sys

import vsim_agent as A
from filelock import Timeout
from jade.jobs.results_aggregator import ResultsAggregator
from jade.result import Result

role = sys.argv[1]
OUT = sys.argv[-1] if len(sys.argv) > (5 if role == "writer" else 4) else "out"
if role == "writer":
    b, w, n = int(sys.argv[2]), int(sys.argv[3]), int(sys.argv[4])
    for i in range(n):
        name = f"b{b}_w{w}_{i}"
        rc = (b + w + i) % 3
        status = "finished" if (i + w) % 5 else "canceled"
        A.call_event("call", op="append", row=name)
        r = Result(name, rc if status == "finished" else 1, status, 1.5 + i + w / 10, completion_time=1000.0 + i, hpc_job_id=str(100 + b))
        try:
            ResultsAggregator.append(OUT, r, batch_id=b)
        except Timeout:  # loud failure: the lock could not be had within its timeout, nothing was appended
            A.call_event("ret", op="append", row=name, outcome="timeout")
            continue
        A.call_event("ret", op="append", row=name)
else:
    c, rounds = int(sys.argv[2]), int(sys.argv[3])
    agg = ResultsAggregator.load(OUT)
    for r in range(rounds):
        A.call_event("call", op="collect", who=c, round=r)
        try:
            res = agg.process_results()
        except Timeout:
            A.call_event("ret", op="collect", who=c, round=r, outcome="timeout")
            continue
        A.call_event("ret", op="collect", who=c, round=r, rows=[[x.name, x.return_code, x.status, x.exec_time_s, x.completion_time, x.hpc_job_id] for x in res])
