"""C08 component actor: a job runner appending results, or a submitter round collecting them.
Runs under the scheduler (agent active); call/return events are recorded at this boundary."""
import json
import sys

import vsim_agent as A
from filelock import Timeout
from jade.jobs.results_aggregator import ResultsAggregator
from jade.result import Result

role = sys.argv[1]
OUT = sys.argv[-1] if len(sys.argv) > (5 if role in ("writer", "rewriter") else 4) else "out"
if role == "writer":
    b, w, n = int(sys.argv[2]), int(sys.argv[3]), int(sys.argv[4])
    for i in range(n):
        name = f"b{b}_w{w}_{i}"
        rc = (b + w + i) % 3
        status = "finished" if (i + w) % 5 else "canceled"
        A.call_event("call", op="append", row=name)
        r = Result(name, rc if status == "finished" else 1, status, 1.5 + i + w / 10, completion_time=1000.0 + i, hpc_job_id=str(100 + b))
        try:
            ResultsAggregator.append(OUT, r, batch_id=b)
        except Timeout:  # loud failure: the lock could not be had within its timeout, nothing was appended
            A.call_event("ret", op="append", row=name, outcome="timeout")
            continue
        A.call_event("ret", op="append", row=name)
elif role == "rewriter":
    # second phase (after a resubmission pruned these rows): the rerun jobs' new results; fields differ from the first attempt
    b, w, names = int(sys.argv[2]), int(sys.argv[3]), [x for x in sys.argv[4].split(",") if x]
    OUT = sys.argv[5]
    for i, name in enumerate(names):
        A.call_event("call", op="append", row=name)
        r = Result(name, (b + i) % 2, "finished" if i % 4 else "canceled", 2000.5 + i, completion_time=5000.0 + i, hpc_job_id=str(200 + b))
        ResultsAggregator.append(OUT, r, batch_id=b)
        A.call_event("ret", op="append", row=name)
elif role == "pruner":
    # what `resubmit-jobs` does to the consolidated results while it holds the submitter role and no batch is running
    names = {x for x in sys.argv[2].split(",") if x}
    OUT = sys.argv[3]
    A.call_event("call", op="prune", n=len(names))
    ResultsAggregator.load(OUT).clear_results_for_resubmission(names)
    A.call_event("ret", op="prune", n=len(names))
else:
    c, rounds = int(sys.argv[2]), int(sys.argv[3])
    agg = ResultsAggregator.load(OUT)
    for r in range(rounds):
        A.call_event("call", op="collect", who=c, round=r)
        try:
            res = agg.process_results()
        except Timeout:
            A.call_event("ret", op="collect", who=c, round=r, outcome="timeout")
            continue
        A.call_event("ret", op="collect", who=c, round=r, rows=[[x.name, x.return_code, x.status, x.exec_time_s, x.completion_time, x.hpc_job_id] for x in res])
