"""C07 component harness: one real submitter round per case, exhaustive over small job lists.

A real JobSubmitter.create (configuration checks on), a real Cluster.create, and one real HpcSubmitter.run()
per case.  The only stand-in is at the SLURM command boundary (SlurmManager.submit / check_statuses), which
records the script it was handed.  Everything the oracle reads is what JADE wrote to disk: the sbatch script,
the run script, the batch configuration.
"""
import hashlib
import itertools
import json
import logging
import os
import random
import re
import shutil

from sim import oracle_batch

_setup_done = False
_calls = []


def _setup(ctx):
    global _setup_done
    if _setup_done:
        return
    os.environ["JADE_REGISTRY"] = ctx["registry"]
    logging.disable(logging.CRITICAL)
    from jade.enums import Status
    from jade.hpc.common import HpcJobStatus
    from jade.hpc.slurm_manager import SlurmManager

    def fake_submit(self, filename):
        _calls.append(filename)
        return Status.GOOD, str(1000 + len(_calls)), ""

    SlurmManager.submit = fake_submit
    SlurmManager.check_statuses = lambda self: {str(1000 + i): HpcJobStatus.RUNNING for i in range(1, 400)}
    _setup_done = True


def make_groups(grid_point, used, spelling="hms"):
    batch, tb, wall, try_add, procs = grid_point
    groups = {}
    for name in ("A", "B"):
        if name not in used and name != "A":
            continue
        groups[name] = {
            "name": name,
            "batch": batch if not tb else 0,
            "time_based": tb,
            "wall_min": wall,
            "walltime": oracle_batch.WALLTIME_SPELLINGS[spelling](wall),
            "procs_opt": procs,
            "procs": procs,
            "try_add": try_add,
            "verbose": name == "B",
            "dsub": True,
            "account": "acct" + name,
            "prefix": "p" + name,
            "slurm_opts": {"partition": "part" + name},
        }
    return groups


def run_case(jobs, groups, max_nodes, dry_run, wdir):
    """jobs: list of (name, est, blockers, group) in listing order."""
    from jade.extensions.generic_command import GenericCommandConfiguration, GenericCommandParameters
    from jade.hpc.hpc_submitter import HpcSubmitter
    from jade.jobs.cluster import Cluster
    from jade.jobs.job_submitter import JobSubmitter
    from jade.jobs.results_aggregator import ResultsAggregator
    from jade.models import HpcConfig, SlurmConfig, SubmissionGroup, SubmitterParams

    out = os.path.join(wdir, "out")
    shutil.rmtree(out, ignore_errors=True)
    _calls.clear()
    cfg = GenericCommandConfiguration()
    for name, est, blk, grp in jobs:
        cfg.add_job(GenericCommandParameters(command="true", name=name, blocked_by=set(blk), estimated_run_minutes=est, submission_group=grp))
    for g in groups.values():
        hpc = HpcConfig(hpc_type="slurm", job_prefix=g["prefix"], hpc=SlurmConfig(account=g["account"], walltime=g["walltime"], **g["slurm_opts"]))
        sp = SubmitterParams(
            hpc_config=hpc,
            per_node_batch_size=g["batch"],
            time_based_batching=g["time_based"],
            num_processes=g["procs_opt"],
            try_add_blocked_jobs=g["try_add"],
            max_nodes=max_nodes,
            generate_reports=False,
            verbose=g["verbose"],
            dry_run=dry_run,
            resource_monitor_type="none",
        )
        cfg.append_submission_group(SubmissionGroup(name=g["name"], submitter_params=sp))
    os.makedirs(out)
    cwd = os.getcwd()
    os.chdir(wdir)
    err = None
    try:
        try:
            mgr = JobSubmitter.create(cfg, output="out")
        except Exception as e:  # refused up front (e.g. a --time spelling JADE does not parse): nothing is handed over
            return {"err": None, "rejected": repr(e)[:160], "written": {}, "handed": [], "dry": [], "ncalls": len(_calls), "status": None}
        cluster = Cluster.create("out", mgr.config)
        ResultsAggregator.create("out")
        sub = HpcSubmitter(mgr.config, mgr._config_file, cluster, "out")
        try:
            sub.run()
        except BaseException as e:  # noqa
            err = repr(e)[:160]
        written = {}
        for f in sorted(os.listdir("out")):
            m = re.match(r"config_batch_(\d+)\.json$", f)
            if m:
                written[int(m.group(1))] = [j["name"] for j in json.load(open(os.path.join("out", f)))["jobs"]]
        scripts = list(_calls)
        handed = []
        for script in scripts:
            handed.append(oracle_batch.read_batch(wdir, script) + (script,))
        # dry run: the scripts are written but not handed over
        dry_scripts = sorted((f for f in os.listdir("out") if re.match(r"p[AB]_batch_\d+\.sh$", f)), key=lambda f: int(re.search(r"_batch_(\d+)", f).group(1)))
        dry = [oracle_batch.read_batch(wdir, os.path.join("out", f)) + (os.path.join("out", f),) for f in dry_scripts] if dry_run else []
        try:
            status = json.load(open("out/job_status.json"))
        except (OSError, ValueError):
            status = None
    finally:
        os.chdir(cwd)
    return {"err": err, "written": written, "handed": handed, "dry": dry, "ncalls": len(scripts), "status": status}


def judge(jobs, groups, max_nodes, res, viol, note):
    sj = {n: {"name": n, "est": e, "blocked_by": list(b), "group": g} for n, e, b, g in jobs}
    placed = []
    for names, cfg, txt, run, cfgp, script in res["handed"]:
        oracle_batch.check_batch(sj, groups, names, cfg, txt, run, script, "out", set(), viol)
        placed += names or []
    dup = sorted({n for n in placed if placed.count(n) > 1})
    if dup:
        viol("double-placement", f"jobs {dup} placed in two batches of one round: {[h[0] for h in res['handed']]}")
    if max_nodes and res["ncalls"] > max_nodes:
        viol("max-nodes-single-round", f"{res['ncalls']} batches handed over in one round with max_nodes={max_nodes}")
    if res.get("rejected"):
        if res["ncalls"]:
            viol("rejected-after-sbatch", f"configuration refused ({res['rejected']}) after {res['ncalls']} batches were handed over")
        return placed
    if res["err"]:
        viol("round-crashed", f"the submitter round raised {res['err']}")
    elif not max_nodes or res["ncalls"] < max_nodes:
        left = [n for n, e, b, g in jobs if not b and n not in placed]
        if left:
            note("C05", "lazy-round-single", f"unblocked jobs {left} left unsubmitted below max-nodes ({res['ncalls']} batches, max_nodes={max_nodes})")
    # persisted status agrees with what was handed over
    if res["status"] is not None and not res["err"]:
        sub = sorted(j["name"] for j in res["status"]["jobs"] if j["state"] == "submitted")
        if sub != sorted(placed):
            note("C09", "status-vs-handed", f"jobs marked submitted {sub} != jobs handed to the HPC {sorted(placed)}")
    return placed


def acyclic_dep_sets(names):
    pairs = [(a, b) for i, a in enumerate(names) for b in names[i + 1 :]]
    for mask in range(1 << len(pairs)):
        deps = {n: [] for n in names}
        for k, (a, b) in enumerate(pairs):
            if mask >> k & 1:
                deps[b].append(a)
        yield deps


GRID_FULL = [(b, False, 10, ta, 1) for b in (1, 2, 3, 4) for ta in (False, True)] + [(0, True, w, ta, p) for w in (3, 4, 6) for ta in (False, True) for p in (1, 2)]
GRID_QUICK = [(1, False, 10, True, 1), (2, False, 10, False, 1), (2, False, 10, True, 1), (3, False, 10, True, 1), (0, True, 3, True, 1), (0, True, 4, True, 1), (0, True, 4, False, 1), (0, True, 6, True, 1), (0, True, 3, True, 2)]
GRID_N4 = [(1, False, 10, True, 1), (2, False, 10, True, 1), (2, False, 10, False, 1), (3, False, 10, True, 1), (0, True, 3, True, 1), (0, True, 4, True, 1), (0, True, 6, True, 1), (0, True, 4, False, 1), (0, True, 3, True, 2), (4, False, 10, True, 1), (0, True, 6, False, 1), (0, True, 4, True, 2)]


def enumerate_cases(scope):
    """Yield (jobs, grid_point, max_nodes) for the exhaustive scope: 'q3' (<=3 jobs, reduced grid),
    'f3' (<=3 jobs, full grid), 'n4' (exactly 4 jobs, 12-point grid)."""
    if scope == "n4":
        ns, grid, mns = (4,), GRID_N4, (None, 1, 2)
    elif scope == "f3":
        ns, grid, mns = (1, 2, 3), GRID_FULL, (None, 1, 2)
    else:
        ns, grid, mns = (1, 2, 3), GRID_QUICK, (None, 1, 2)
    for n in ns:
        names = [f"j{i}" for i in range(n)]
        gas = list(itertools.product("AB", repeat=n)) if n <= 2 else [("A",) * n, tuple("AB"[i % 2] for i in range(n))]
        for deps in acyclic_dep_sets(names):
            for order in itertools.permutations(names):
                for ests in itertools.product((1, 3), repeat=n):
                    est = dict(zip(names, ests))
                    for ga in gas:
                        grp = dict(zip(names, ga))
                        jobs = [(x, est[x], deps[x], grp[x]) for x in order]
                        for gp in grid:
                            if gp[1] and max(ests) > gp[2]:
                                continue  # estimate above walltime: invalid configuration (C17), not a batching case
                            for mn in mns:
                                yield jobs, gp, mn


def random_case(rng):
    n = rng.randint(5, 12)
    names = [f"j{i}" for i in range(n)]
    dens = rng.choice([0.0, 0.15, 0.3, 0.5])
    deps = {names[i]: [names[k] for k in range(i) if rng.random() < dens] for i in range(n)}
    tb = rng.random() < 0.5
    wall = rng.randint(4, 12)
    gp = (rng.randint(1, 5) if not tb else 0, tb, wall, rng.random() < 0.6, rng.choice([1, 2, 3]))
    order = names[:]
    rng.shuffle(order)
    ng = rng.choice([1, 2])
    jobs = [(x, rng.randint(1, min(6, wall)), deps[x], rng.choice("AB"[:ng])) for x in order]
    # how the walltime is spelled: canonical h:mm:ss, equivalent spellings, and spellings the scheduler accepts but JADE refuses
    sp = rng.choice(["hms"] * 9 + ["hhms", "dhms", "h_m_s", "ms", "ms", "m"])
    return jobs, gp, rng.choice([None, 1, 2, 3]), sp


def chunk(args, ctx, wdir):
    """Worker entry: process the cases of one chunk of an enumeration (or a seeded random batch)."""
    _setup(ctx)
    wd = os.path.join(wdir, "c07")
    os.makedirs(wd, exist_ok=True)
    violations = []
    notes = {}
    hashes = []
    nt_hashes = []
    samples = []
    ncases = nbatches = ndry = nrejected = 0
    if args["scope"] == "random":
        rng = random.Random(args["seed"])
        gen = (random_case(rng) for _ in range(args["count"]))
        sel = lambda i: True
    else:
        gen = enumerate_cases(args["scope"])
        sel = lambda i: i % args["nchunks"] == args["chunk"]
    nspell = {}
    for i, case in enumerate(gen):
        if not sel(i):
            continue
        jobs, gp, mn = case[:3]
        spelling = case[3] if len(case) > 3 else "hms"
        used = {j[3] for j in jobs}
        groups = make_groups(gp, used, spelling)
        nspell[spelling] = nspell.get(spelling, 0) + 1
        res = run_case(jobs, groups, mn, False, wd)
        ncases += 1
        nbatches += res["ncalls"]
        h = hashlib.sha1(json.dumps([jobs, gp, mn, spelling]).encode()).hexdigest()[:12]
        if res.get("rejected"):
            nrejected += 1
        hashes.append(h)
        case_desc = {"jobs": [f"{n}({e}min)<-{','.join(b)} [{g}]" for n, e, b, g in jobs], "group_params": {"batch": gp[0], "time_based": gp[1], "wall_min": gp[2], "walltime": groups["A"]["walltime"], "try_add": gp[3], "procs": gp[4]}, "max_nodes": mn}

        def viol(key, text, _c=case_desc):
            violations.append({"prop": "C07" if key != "double-placement" else "C01", "key": key, "text": f"{text} | case {json.dumps(_c)}", "step": 0, "epoch": 0})

        def note(prop, key, text, _c=case_desc):
            if (prop, key) not in notes:
                violations.append({"prop": prop, "key": key, "text": f"{text} | case {json.dumps(_c)}", "step": 0, "epoch": 0})
            notes[(prop, key)] = notes.get((prop, key), 0) + 1

        placed = judge(jobs, groups, mn, res, viol, note)
        if res["ncalls"] >= 2 or any(j[2] and j[0] in placed for j in jobs):
            nt_hashes.append(h)
            if len(samples) < 2:
                samples.append(dict(case_desc, batches=[hh[0] for hh in res["handed"]]))
        # dry-run twin
        if args.get("dry_every") and (ncases % args["dry_every"] == 0 or len(jobs) <= 2):
            d = run_case(jobs, groups, mn, True, wd)
            ndry += 1
            if d["ncalls"]:
                viol("dry-run-handed-over", f"dry run called sbatch {d['ncalls']} times")
            real = [hh[0] for hh in res["handed"]]
            dryb = [hh[0] for hh in d["dry"]]
            if dryb != real:
                viol("dry-run-differs", f"dry run wrote batches {dryb}, the real round handed over {real}")
            sj = {n: {"name": n, "est": e, "blocked_by": list(b), "group": g} for n, e, b, g in jobs}
            for names, cfg, txt, run, cfgp, script in d["dry"]:
                oracle_batch.check_batch(sj, groups, names, cfg, txt, run, script, "out", set(), viol)
        if len(violations) > 200:
            break
    shutil.rmtree(wd, ignore_errors=True)
    return {"violations": violations, "cases": ncases, "case_hashes": hashes, "nontrivial_hashes": nt_hashes, "samples": samples, "batches": nbatches, "dry_twins": ndry, "error": None, "walltime_spellings": nspell, "refused_up_front": nrejected}
