"""C10 component actor: one handle on the cluster state executing a seeded program over JADE's public API.
Call/return events are recorded at this boundary; the driver owns every interleaving decision."""
import json
import sys

import vsim_agent as A
from filelock import Timeout
from jade.jobs.cluster import Cluster, ConfigVersionMismatch, JobStatusVersionMismatch
from jade.models import JobState

me = sys.argv[1]
prog = json.loads(sys.argv[2])
cl = None
promoted = False
stale = None


def ev(kind, **kw):
    A.call_event(kind, who=me, **kw)


def disk_versions():
    """Newest version visible on disk for each of the two state files: the quick-check version file and the version
    recorded inside the state file itself (they differ only after a writer died between its two writes)."""
    out = []
    for vf, sf in (("out/config_version.txt", "out/cluster_config.json"), ("out/job_status_version.txt", "out/job_status.json")):
        v = -1
        try:
            v = int(open(vf).read())
        except (OSError, ValueError):
            pass
        try:
            v = max(v, int(json.load(open(sf))["version"]))
        except (OSError, ValueError, KeyError):
            pass
        out.append(v)
    return out[0], out[1]


for op in prog:
    try:
        if op == "load":
            ev("call", op=op)
            stale, _ = Cluster.deserialize("out", deserialize_jobs=True)
            ev("ret", op=op, cv=stale.config.version, jv=stale.job_status.version, submitter=stale.config.submitter)
        elif op == "promote" and not promoted:
            ev("call", op=op)
            cl, promoted = Cluster.deserialize("out", try_promote_to_submitter=True, deserialize_jobs=True)
            ev("ret", op=op, promoted=promoted, cv=cl.config.version, jv=cl.job_status.version)
        elif op == "work" and promoted:
            job = next((j for j in cl.iter_jobs(state=JobState.NOT_SUBMITTED)), None)
            ev("call", op=op, cv=cl.config.version, jv=cl.job_status.version)
            cl.update_job_status([job] if job else [], [], [], set(), list(cl.job_status.hpc_job_ids) + [f"{me}-{cl.job_status.batch_index}"], cl.job_status.batch_index + 1)
            ev("ret", op=op, outcome="ok", cv=cl.config.version, jv=cl.job_status.version)
        elif op == "complete_id" and promoted and cl.job_status.hpc_job_ids:
            ev("call", op=op, cv=cl.config.version, jv=cl.job_status.version)
            cl.complete_hpc_job_id(cl.job_status.hpc_job_ids[0])
            ev("ret", op=op, outcome="ok", cv=cl.config.version, jv=cl.job_status.version)
        elif op == "demote" and promoted:
            ev("call", op=op)
            cl.demote_from_submitter()
            promoted = False
            ev("ret", op=op, outcome="ok", cv=cl.config.version)
        elif op in ("stale_write", "stale_write_jobs", "stale_promote", "stale_demote") and stale is not None:
            # only attempt when this copy is certainly out of date (versions on disk only grow), i.e. the case the
            # property speaks about; a copy that is still current would be an ordinary write
            dcv, djv = disk_versions()
            if op == "stale_write_jobs":
                if stale.job_status.version >= djv:
                    continue
            elif stale.config.version >= dcv:
                continue
            if op == "stale_promote" and stale.config.submitter is not None:
                continue
            if op == "stale_demote" and not stale.am_i_submitter():
                continue  # demote asserts that the copy names this host: only a copy loaded while a handle on this host held the role
            ev("call", op=op, cv=stale.config.version, jv=stale.job_status.version, disk=[dcv, djv])
            try:
                if op == "stale_write":
                    stale.mark_canceled()
                elif op == "stale_write_jobs":
                    stale.job_status.hpc_job_ids.append("stale")
                    stale.serialize_jobs("stale")
                elif op == "stale_demote":
                    stale.demote_from_submitter()
                else:
                    got = stale.promote_to_submitter()
                    ev("ret", op=op, outcome="accepted" if got else "refused")
                    stale = None
                    continue
                ev("ret", op=op, outcome="accepted")
            except ConfigVersionMismatch:
                ev("ret", op=op, outcome="rejected", exc="ConfigVersionMismatch")
            except JobStatusVersionMismatch:
                ev("ret", op=op, outcome="rejected", exc="JobStatusVersionMismatch")
            stale = None
    except Timeout:
        ev("ret", op=op, outcome="timeout")
    except Exception as e:  # an error inside JADE ends this handle's program (as it ends a real command)
        ev("ret", op=op, outcome="error", exc=repr(e)[:120])
        promoted = False
        break
if promoted:
    try:
        ev("call", op="demote")
        cl.demote_from_submitter()
        ev("ret", op="demote", outcome="ok", cv=cl.config.version)
    except Exception as e:
        ev("ret", op="demote", outcome="error", exc=repr(e)[:80])
