"""C19: jobs launched exactly as configured, real exit status recorded.

Full simulations whose job commands are `probe` followed by hostile tokens; the probe announces its argv, environment
and cwd to the driver at launch (process boundary), prints unique tokens on stdout/stderr and exits with the scripted code.
"""
import os
import random
import shlex

from sim.driver import Sim
from sim import scenario

ALPHA = ["a", "B", "7", " ", "  ", "\t", "'", '"', "\\", "$", "*", "?", ";", "|", "&", "#", "~", "=", "é", "{", "}", "(", ")", "<", ">", "!", "`", "%", "-", "--x", "ü b"]
NAME_FIRST = "abcXYZ019"
NAME_REST = "abcXYZ019_.-"


def tok(rng):
    if rng.random() < 0.08:
        return ""
    return "".join(rng.choice(ALPHA) for _ in range(rng.randint(1, 6)))


def render(rng, toks):
    style = rng.choice(["join", "dq", "mixed", "bare"])
    if style == "bare":
        # unquoted words: under POSIX splitting every character except whitespace, quotes and backslash is literal
        # (# ; | & $ * ? ~ = { } < > ! ` % included: the command is not run by a shell)
        words = ["".join(ch for ch in t if ch not in " \t'\"\\") for t in toks]
        words = [w for w in words if w] or [rng.choice(["--color=#ff0000", "a#b", "#", "x;y|z&w", "$HOME", "*.txt", "~/d", "k=v"])]
        if rng.random() < 0.5:
            words.append(rng.choice(["--color=#ff0000", "run#3", "#tag", "http://h/p#frag", "a;b", "$X"]))
        body = rng.choice([" ", "  ", "\t"]).join(words)
        return style, body
    if style == "join":
        body = shlex.join(toks)
    elif style == "dq":
        body = " ".join('"' + t.replace("\\", "\\\\").replace('"', '\\"').replace("$", "\\$").replace("`", "\\`") + '"' for t in toks)
    else:
        body = rng.choice([" ", "  ", "\t"]).join(shlex.quote(t) for t in toks)
    return style, body


def gen(rng, tier):
    base = scenario.gen_scenario(rng, max_jobs=8, min_jobs=3, fail_p=0.0, flag_p=0.0)
    g = base["groups"][0]
    g.update(time_based=False, batch=rng.choice([2, 4, 10]), try_add=True)
    base["groups"] = [g]
    jobs = []
    used = set()
    auto = rng.random() < 0.25  # the jobs of `jade config create commands.txt`: no name given, JADE uses str(job_id)
    for n, j in enumerate(base["jobs"]):
        name = rng.choice(NAME_FIRST) + "".join(rng.choice(NAME_REST) for _ in range(rng.randint(0, 6)))
        while name in used:
            name += rng.choice(NAME_FIRST)
        if auto:
            name = str(n + 1)
        used.add(name)
        while True:
            toks = [tok(rng) for _ in range(rng.randint(0, 5))]
            style, body = render(rng, toks)
            cmd = rng.choice(["probe ", "probe  ", " probe "]) + body
            try:
                if shlex.split(cmd.strip())[0] == "probe":
                    break
            except ValueError:
                continue
        jobs.append(dict(j, name=name, blocked_by=[], group=g["name"], command=cmd, style=style, rc=rng.choice([0, 0, 1, 2, 77, 126, 127, 128, 200, 255, -9, -15]), flag=False,
                         append_job_name=rng.random() < 0.5, append_output_dir=rng.random() < 0.5, auto_name=auto))
    base["jobs"] = jobs
    base["max_nodes"] = None
    base["user"] = {}
    base["kind"] = "c19"
    base["inherit_env"] = rng.random() < 0.3
    return scenario.normalize(base)


class C19Sim(Sim):
    def final_checks(self):
        Sim.final_checks(self)
        V = lambda key, text: self.viol("C19", key, text)
        rows = self._rows_on_disk()
        self.c19_checked = 0
        for name, j in self.jobs.items():
            ls = self.launches.get(name, [])
            if len(ls) != 1:
                V("launch-count", f"{name} launched {len(ls)} times")
                continue
            l = ls[0]
            exp = shlex.split(j["command"].strip())[1:]
            if j["append_job_name"]:
                exp.append(f"--jade-job-name={name}")
            if j["append_output_dir"]:
                exp.append(f"--jade-runtime-output={self.outname}")
            if l["argv"] != exp:
                V("argv", f"{name}: command {j['command']!r} started with arguments {l['argv']}, POSIX split gives {exp}")
            if l["env"].get("JADE_JOB_NAME") != name:
                V("env-job-name", f"{name}: JADE_JOB_NAME={l['env'].get('JADE_JOB_NAME')!r}")
            if l["env"].get("JADE_RUNTIME_OUTPUT") != self.outname:
                V("env-runtime-output", f"{name}: JADE_RUNTIME_OUTPUT={l['env'].get('JADE_RUNTIME_OUTPUT')!r}")
            for ext, want in ((".o", f"OUT-{name}\n"), (".e", f"ERR-{name}\n")):
                p = os.path.join(self.out, "job-stdio", name + ext)
                try:
                    got = open(p).read()
                except OSError:
                    got = None
                if got != want:
                    V("stdio-file", f"{name}{ext}: contains {got!r}, the job wrote {want!r}")
            r = rows.get(name)
            if not r or len(r) != 1:
                V("result-row", f"{name}: {len(r or [])} result rows")
                continue
            rc, status, hid = r[0][0], r[0][1], r[0][2]
            if int(rc) != j["rc"]:
                V("exit-code", f"{name}: recorded return code {rc}, real exit code {j['rc']}")
            if status != "finished":
                V("status", f"{name}: status {status}")
            if hid != str(l["env"].get("SLURM_JOB_ID")):
                V("hpc-job-id", f"{name}: recorded hpc_job_id {hid!r}, ran on the node of HPC job {l['env'].get('SLURM_JOB_ID')!r}")
            self.c19_checked += 1

    def result(self, err=None):
        res = Sim.result(self, err)
        res["c19_checked"] = getattr(self, "c19_checked", 0)
        return res
