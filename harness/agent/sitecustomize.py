import os
if os.environ.get("VSIM_SOCK") and not os.environ.get("VSIM_NOAGENT"):
    import vsim_agent
    vsim_agent.install()
    if not os.environ.get("VSIM_ZYGOTE"):
        vsim_agent.activate()
if os.environ.get("VSIM_FILELOCK") == "legacy":
    import filelock._soft as _fs
    _fs.SoftFileLock._try_break_stale_lock = lambda self: None
