"""Activates the simulation agent in every Python process started with harness/agent on PYTHONPATH.

Inert unless VSIM_SOCK is set.  With VSIM_ZYGOTE set (the fork server itself) the agent is installed but
not activated: each forked child activates it with its own identity.
"""
import os

if os.environ.get("VSIM_SOCK") and not os.environ.get("VSIM_NOAGENT"):
    import vsim_agent

    vsim_agent.install()
    if not os.environ.get("VSIM_ZYGOTE"):
        vsim_agent.activate()
