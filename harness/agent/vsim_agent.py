"""Prototype agent: audit-hook sched points + virtual time. Throwaway."""
import os
import sys
import json
import socket
import subprocess  # import before patching time so it keeps real monotonic
import time as _time

_real_sleep = _time.sleep
_real_time = _time.time
_real_perf = _time.perf_counter
_real_mono = _time.monotonic

_state = {"active": False, "sock": None, "off": 0.0, "busy": False, "root": None, "pid": None}

_EVENTS = {
    "open", "os.remove", "os.rename", "os.mkdir", "os.rmdir", "subprocess.Popen",
    "os.listdir", "os.scandir", "glob.glob", "os.chmod", "os.truncate", "shutil.copyfile",
}


def _send(msg):
    _state["sock"].send(json.dumps(msg).encode())


def _sched(kind, **info):
    """Blocking sched point."""
    if not _state["active"] or _state["busy"] or os.getpid() != _state["pid"]:
        return None
    _state["busy"] = True
    try:
        info["k"] = kind
        _send(info)
        data = _state["sock"].recv(65536)
        if not data:
            os._exit(111)
        rep = json.loads(data)
        _state["off"] = rep.get("off", _state["off"])
        act = rep.get("a")
        if act == "die":
            os.kill(os.getpid(), 9)
        return rep
    finally:
        _state["busy"] = False


def _notify(kind, **info):
    if not _state["active"] or _state["busy"] or os.getpid() != _state["pid"]:
        return
    info["k"] = kind
    info["nb"] = 1
    _state["busy"] = True
    try:
        _send(info)
    finally:
        _state["busy"] = False


def _in_scope(p):
    if isinstance(p, int):
        return False
    try:
        p = os.fspath(p)
    except TypeError:
        return False
    if isinstance(p, bytes):
        p = p.decode("utf-8", "replace")
    root = _state["root"]
    ap = p if p.startswith("/") else os.path.join(os.getcwd(), p)
    ap = os.path.normpath(ap)
    return ap.startswith(root), ap


def _hook(ev, args):
    if not _state["active"] or _state["busy"] or ev not in _EVENTS:
        return
    if ev == "subprocess.Popen":
        rep = _sched("popen", argv=[str(x) for x in args[1]])
        return
    r = _in_scope(args[0])
    if not r or not r[0]:
        return
    info = {"ev": ev, "p": r[1]}
    if ev == "open":
        info["m"] = args[1]
        info["f"] = args[2]
    elif ev == "os.rename":
        info["p2"] = str(args[1])
    rep = _sched("io", **info)
    if rep and rep.get("a") == "raise":
        raise OSError(rep["errno"], os.strerror(rep["errno"]), r[1])


def _sleep(d):
    if _state["active"] and not _state["busy"] and os.getpid() == _state["pid"]:
        _sched("sleep", d=d)
    else:
        _real_sleep(d)


def install():
    _time.sleep = _sleep
    _time.time = lambda: _real_time() + _state["off"]
    _time.perf_counter = lambda: _real_perf() + _state["off"]
    _time.monotonic = lambda: _real_mono() + _state["off"]
    sys.addaudithook(_hook)

    orig_init = subprocess.Popen.__init__
    orig_wait = subprocess.Popen.wait
    orig_comm = subprocess.Popen.communicate

    def init(self, *a, **kw):
        try:
            orig_init(self, *a, **kw)
        except BaseException:
            _notify("spawn_failed")
            raise
        _notify("spawned", child=self.pid)

    def wait(self, timeout=None):
        if self.returncode is not None or getattr(self, "_vsim_w", False):
            return orig_wait(self, timeout)
        self._vsim_w = True
        try:
            _notify("wait", child=self.pid)
            rc = orig_wait(self, timeout)
        finally:
            self._vsim_w = False
        _sched("waited", child=self.pid, rc=rc)
        return rc

    def communicate(self, input=None, timeout=None):
        if self.returncode is not None or getattr(self, "_vsim_w", False):
            return orig_comm(self, input, timeout)
        self._vsim_w = True
        try:
            _notify("wait", child=self.pid)
            out = orig_comm(self, input, timeout)
        finally:
            self._vsim_w = False
        _sched("waited", child=self.pid, rc=self.returncode)
        return out

    subprocess.Popen.__init__ = init
    subprocess.Popen.wait = wait
    subprocess.Popen.communicate = communicate


def activate(role=None, extra=None):
    path = os.environ["VSIM_SOCK"]
    s = socket.socket(socket.AF_UNIX, socket.SOCK_SEQPACKET)
    s.connect(path)
    _state["sock"] = s
    _state["root"] = os.environ["VSIM_ROOT"]
    _state["pid"] = os.getpid()
    _state["active"] = True
    hello = {
        "pid": os.getpid(),
        "ppid": int(os.environ.get("VSIM_LPPID", os.getppid())),
        "role": role or os.environ.get("VSIM_ROLE", "py"),
        "argv": sys.argv,
        "node": os.environ.get("VSIM_NODE"),
        "host": os.environ.get("VSIM_HOST"),
    }
    if extra:
        hello.update(extra)
    _sched("hello", **hello)
    host = os.environ.get("VSIM_HOST")
    if host:
        socket.gethostname = lambda: host
