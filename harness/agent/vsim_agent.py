"""In-process agent of the JADE runtime-monitoring harness.

Loaded through ``sitecustomize`` (first entry of PYTHONPATH) into every Python process of a
simulation.  It needs no change to /repo: every hook is installed from outside.

* scheduling points: an audit hook turns file mutations / lock operations / directory scans /
  subprocess spawns under the scenario root into blocking messages to the driver;
* failpoints: the driver may answer ``die`` (SIGKILL self *here*), ``torn`` (truncate the target of a
  write-open, then die) or ``raise`` (``OSError(errno)`` propagates out of the audited call);
* virtual time: ``time.sleep`` is a scheduling point; the clocks are real clock + a driver-owned offset;
* virtual hosts: ``socket.gethostname`` returns ``VSIM_HOST``.

The process is single-threaded on every path that matters and the agent state is process local.
"""
import json
import os
import socket
import subprocess  # imported before time is patched: its private timeout clock stays real
import sys
import time as _time

_real_sleep = _time.sleep
_real_time = _time.time
_real_perf = _time.perf_counter
_real_mono = _time.monotonic

_state = {"active": False, "sock": None, "off": 0.0, "busy": False, "root": None, "pid": None, "n": 0}

_EVENTS = frozenset(
    (
        "open",
        "os.remove",
        "os.rename",
        "os.mkdir",
        "os.rmdir",
        "subprocess.Popen",
        "os.listdir",
        "os.scandir",
        "glob.glob",
        "os.chmod",
        "os.truncate",
        "shutil.copyfile",
        "shutil.move",
        "shutil.rmtree",
    )
)


def _send(msg):
    _state["sock"].send(json.dumps(msg).encode())


def _mine():
    return _state["active"] and not _state["busy"] and os.getpid() == _state["pid"]


def _sched(kind, **info):
    """Blocking scheduling point: tell the driver what is about to happen, wait for its verdict."""
    if not _mine():
        return None
    _state["busy"] = True
    try:
        info["k"] = kind
        _state["n"] += 1
        _send(info)
        data = _state["sock"].recv(1 << 16)
        if not data:
            os._exit(111)
        rep = json.loads(data)
        _state["off"] = rep.get("off", _state["off"])
        act = rep.get("a")
        if act == "die":
            os.kill(os.getpid(), 9)
            _real_sleep(60)
        elif act == "torn":
            try:
                fd = os.open(info["p"], os.O_WRONLY | os.O_CREAT | os.O_TRUNC, 0o644)
                os.close(fd)
            except OSError:
                pass
            os.kill(os.getpid(), 9)
            _real_sleep(60)
        return rep
    finally:
        _state["busy"] = False


def _notify(kind, **info):
    if not _mine():
        return
    info["k"] = kind
    info["nb"] = 1
    _state["busy"] = True
    try:
        _send(info)
    finally:
        _state["busy"] = False


def _scope(p):
    """Return the normalised absolute path if p is under the scenario root, else None."""
    if isinstance(p, int):
        return None
    try:
        p = os.fspath(p)
    except TypeError:
        return None
    if isinstance(p, bytes):
        p = p.decode("utf-8", "replace")
    if not p.startswith("/"):
        try:
            p = os.path.join(os.getcwd(), p)
        except OSError:
            return None
    p = os.path.normpath(p)
    return p if p.startswith(_state["root"]) else None


def _hook(ev, args):
    if ev not in _EVENTS or not _state["active"] or _state["busy"]:
        return
    if ev == "subprocess.Popen":
        try:
            argv = [str(x) for x in args[1]]
        except TypeError:
            argv = [str(args[1])]
        _sched("popen", argv=argv)
        return
    ap = _scope(args[0])
    if ap is None:
        return
    info = {"ev": ev, "p": ap}
    if ev == "open":
        info["m"] = args[1]
        info["f"] = args[2]
    elif ev == "os.rename":
        info["p2"] = str(args[1])
    rep = _sched("io", **info)
    if rep and rep.get("a") == "raise":
        e = rep["errno"]
        raise OSError(e, os.strerror(e), ap)


def _sleep(d):
    if _mine():
        _sched("sleep", d=d)
    else:
        _real_sleep(d)


def call_event(kind, **info):
    """For component actors (C08/C10): record a call/return event at the actor's boundary."""
    return _sched(kind, **info)


def install():
    """Patch the process; inert until activate()."""
    _time.sleep = _sleep
    _time.time = lambda: _real_time() + _state["off"]
    _time.perf_counter = lambda: _real_perf() + _state["off"]
    _time.monotonic = lambda: _real_mono() + _state["off"]
    sys.addaudithook(_hook)

    orig_init = subprocess.Popen.__init__
    orig_wait = subprocess.Popen.wait
    orig_comm = subprocess.Popen.communicate

    def init(self, *a, **kw):
        try:
            orig_init(self, *a, **kw)
        except BaseException:
            _notify("spawn_failed")
            raise
        _notify("spawned", child=self.pid)

    def wait(self, timeout=None):
        if self.returncode is not None or getattr(self, "_vsim_w", False):
            return orig_wait(self, timeout)
        self._vsim_w = True
        try:
            _notify("wait", child=self.pid)
            rc = orig_wait(self, timeout)
        finally:
            self._vsim_w = False
        _sched("waited", child=self.pid, rc=rc)
        return rc

    def communicate(self, input=None, timeout=None):
        if self.returncode is not None or getattr(self, "_vsim_w", False):
            return orig_comm(self, input, timeout)
        self._vsim_w = True
        try:
            _notify("wait", child=self.pid)
            out = orig_comm(self, input, timeout)
        finally:
            self._vsim_w = False
        _sched("waited", child=self.pid, rc=self.returncode)
        return out

    subprocess.Popen.__init__ = init
    subprocess.Popen.wait = wait
    subprocess.Popen.communicate = communicate


def activate(role=None, extra=None):
    """Connect to the driver and say hello (first scheduling point of this process)."""
    path = os.environ["VSIM_SOCK"]
    s = socket.socket(socket.AF_UNIX, socket.SOCK_SEQPACKET)
    s.connect(path)
    _state["sock"] = s
    _state["root"] = os.environ["VSIM_ROOT"]
    _state["pid"] = os.getpid()
    host = os.environ.get("VSIM_HOST")
    if host:
        socket.gethostname = lambda: host
    if os.environ.get("VSIM_FILELOCK") == "legacy":
        try:
            import filelock._soft as _fs

            _fs.SoftFileLock._try_break_stale_lock = lambda self: None
        except Exception:
            pass
    else:
        # The installed filelock removes an unparsable lock file (JADE's deliberate "deadlock" file is empty) once it is
        # 2 s old, comparing time.time() with the file's mtime.  Under virtual time that mixes two clocks and made the
        # outcome depend on real time; any contender may have been delayed by 2 s, so the file always counts as old enough.
        try:
            import types

            import filelock._soft as _fs

            _fs.time = types.SimpleNamespace(time=lambda: float("inf"), sleep=_time.sleep)
        except Exception:
            pass
    _state["active"] = True
    hello = {
        "pid": os.getpid(),
        "ppid": int(os.environ.get("VSIM_LPPID", os.getppid())),
        "role": role or os.environ.get("VSIM_ROLE", "py"),
        "argv": sys.argv,
        "node": os.environ.get("VSIM_NODE"),
        "host": host,
        "tag": os.environ.get("VSIM_TAG"),
    }
    if extra:
        hello.update(extra)
    _sched("hello", **hello)


# ------------------------------------------------------------------------------------------------------------------
# Inner monitors (advisory): icontract post-conditions / invariants on a few internal commit points of JADE, attached
# from outside after jade is imported (fork server).  They record and return True - they never raise into JADE - and report
# to the driver, which counts evaluations and failures.  The deciding oracles are all at process boundaries; these add
# observability at the exact point of mutation (under the lock the code itself holds).
_inner = {"attached": []}


def _report(name, ok, detail=""):
    if _state["active"]:
        _notify("contract", name=name, ok=bool(ok), detail=str(detail)[:300])


def attach_inner_monitors():
    try:
        import icontract
    except ImportError:
        return []

    class Advisory(Exception):
        pass

    attached = []
    try:
        from jade.jobs.cluster import Cluster
        from jade.models import JobState

        def counters_agree(self):
            try:
                st = [j.state for j in self._job_status.jobs]
                nd = sum(1 for x in st if x == JobState.DONE)
                ns = sum(1 for x in st if x == JobState.SUBMITTED)
                c = self._config
                ok = c.completed_jobs <= c.submitted_jobs <= c.num_jobs and c.completed_jobs == nd
                _report("cluster.update_job_status: completed==#done, completed<=submitted<=total", ok, f"completed={c.completed_jobs} submitted={c.submitted_jobs} total={c.num_jobs} done={nd} submitted_state={ns}")
            except Exception as e:  # the monitor must never disturb JADE
                _report("cluster.update_job_status: monitor error", True, repr(e))
            return True

        Cluster._update_job_status = icontract.ensure(counters_agree, error=Advisory)(Cluster._update_job_status)
        attached.append("Cluster._update_job_status")
    except Exception as e:  # internal name moved: not attached, never a violation
        attached.append(f"(not attached: Cluster._update_job_status: {e!r})")
    try:
        from jade.hpc.hpc_submitter import _BatchJobs

        def admission_within_limit(self, result):
            try:
                if result:
                    if self._time_based_batching:
                        ok = self._estimated_batch_time <= self._max_batch_time
                        d = f"estimated {self._estimated_batch_time} limit {self._max_batch_time}"
                    else:
                        ok = len(self._jobs) <= self._per_node_batch_size
                        d = f"jobs {len(self._jobs)} batch size {self._per_node_batch_size}"
                    _report("_BatchJobs.try_append: admitted batch within its limit", ok, d)
            except Exception as e:
                _report("_BatchJobs.try_append: monitor error", True, repr(e))
            return True

        _BatchJobs.try_append = icontract.ensure(admission_within_limit, error=Advisory)(_BatchJobs.try_append)
        attached.append("_BatchJobs.try_append")
    except Exception as e:
        attached.append(f"(not attached: _BatchJobs.try_append: {e!r})")
    try:
        from jade.jobs import job_queue

        def outstanding_within_depth(self):
            try:
                ok = len(self._outstanding_jobs) <= self._queue_depth
                _report("JobQueue: outstanding <= depth", ok, f"outstanding {len(self._outstanding_jobs)} depth {self._queue_depth}")
            except Exception as e:
                _report("JobQueue: monitor error", True, repr(e))
            return True

        for meth in ("submit", "process_queue"):
            setattr(job_queue.JobQueue, meth, icontract.ensure(outstanding_within_depth, error=Advisory)(getattr(job_queue.JobQueue, meth)))
        attached.append("JobQueue.submit/process_queue")
    except Exception as e:
        attached.append(f"(not attached: JobQueue: {e!r})")
    _inner["attached"] = attached
    return attached
