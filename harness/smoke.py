"""Smoke test: one 3-job scenario through the whole engine (agent, driver, simulated SLURM, fork server)."""
import os
import random
import sys

sys.path.insert(0, os.path.dirname(os.path.abspath(__file__)))
from sim import pool, scenario

rng = random.Random(1)
scen = scenario.normalize(scenario.gen_scenario(rng, max_jobs=3, min_jobs=3))
with pool.Context() as ctx:
    res = pool.run_tasks(ctx, [{"fn": "sim", "args": {"scen": scen, "seed": 1, "id": 0}}], nworkers=1, timeout=120)[0]
ok = res.get("complete") and not res.get("error") and res.get("launches", 0) >= 1
print("smoke:", "ok" if ok else f"FAILED {res.get('error')} {res.get('violations')}", {k: res.get(k) for k in ("steps", "sbatches", "launches", "obs")})
sys.exit(0 if ok else 1)
