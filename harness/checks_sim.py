"""Check specifications for the system-level properties decided on full simulations (SIM engine)."""
import copy
import random

from core import sub_seed, total, hist
from sim import scenario, model


def sim_task(scen, seed, i, **kw):
    args = {"scen": scen, "seed": seed, "id": i, "trace_n": 150}
    args.update(kw)
    return {"fn": "sim", "args": args}


def brief(scen):
    """Compact, readable form of a scenario for evidence samples."""
    return {
        "jobs": [f"{j['name']}<-{','.join(j['blocked_by'])} rc={j['rc']}{' flag' if j['flag'] else ''} est={j['est']} {j['group']}" for j in scen["jobs"]],
        "groups": [
            f"{g['name']}: " + (f"time-based {g['wall_min']}min x {g['procs']}" if g["time_based"] else f"batch {g['batch']}") + f" procs={g['procs_opt']} try_add={g['try_add']}"
            for g in scen["groups"]
        ],
        "max_nodes": scen["max_nodes"],
        "mode": scen.get("mode"),
        "policy": scen["policy"]["kind"],
        "user": scen.get("user"),
        "hooks": scen.get("hooks") or None,
        "faults": scen.get("faults") or None,
    }


def run_brief(r):
    keys = ("steps", "switches", "sbatches", "launches", "obs", "recoveries", "rounds", "round_hosts", "promoted_rounds", "refused_rounds", "max_active", "max_live", "complete", "sig", "final_classes")
    return {k: r.get(k) for k in keys}


def endgame(scen, rng, keep_dag=False):
    """Scenario family for the end-of-run window: everything is handed over early in few large batches, the jobs run long,
    and a user round is promoted while the last batches are still running and is delayed at its critical points until the
    batches have finished and left the scheduler."""
    if not keep_dag:
        for j in scen["jobs"]:
            if rng.random() < 0.8:
                j["blocked_by"] = []
    for g in scen["groups"]:
        g["time_based"] = False
        g["batch"] = rng.randint(3, 8)
        g["try_add"] = True
    scen["max_nodes"] = None
    scen["user"] = {}
    scen["endgame"] = True
    scen["policy"].update(kind=rng.choice(["walk", "sticky"]), sticky=0.5, park_p=0.0, finish_w=rng.choice([0.3, 1.0]), start_w=1.0, time_w=0.0)
    return scen


class SimSpec:
    level = "exploration"
    zygote = True
    task_timeout = 150
    assumptions = [
        "simulated SLURM (sbatch/squeue/scancel executables answering from the driver's scheduler state) stands in for a real scheduler",
        "open->write->close of one file and SoftFileLock marker creation are atomic at the scheduler's granularity (audit events)",
        "one kernel: Lustre/NFS coherence effects are not modelled",
    ]
    n = {"quick": 300, "thorough": 4000}

    def gen(self, rng, i, tier):
        return scenario.gen_scenario(rng)

    def tasks(self, tier, seed):
        out = []
        for i in range(self.n[tier]):
            s = sub_seed(seed, i, self.prop)
            rng = random.Random(s)
            scen = scenario.normalize(self.gen(rng, i, tier))
            out.append(sim_task(scen, s, i))
        return out

    def shape(self, t, r):
        s = t["args"]["scen"]
        return f"{len(s['jobs'])}j{len(s['groups'])}g{s['max_nodes']}{s.get('mode')}"

    def sample(self, t, r):
        return {"scenario": brief(t["args"]["scen"]), "seed": t["args"]["seed"], "observed": run_brief(r)}

    def base_counters(self, tasks, results):
        ok = [r for r in results if not r.get("error")]
        return {
            "scheduling_steps": total(ok, "steps"),
            "context_switches": total(ok, "switches"),
            "sbatch_calls_checked": total(ok, "sbatches"),
            "job_launches_checked": total(ok, "launches"),
            "lock_free_status_observations": total(ok, "obs"),
            "submitter_rounds": total(ok, "rounds"),
            "promoted_rounds": total(ok, "promoted_rounds"),
            "refused_rounds": total(ok, "refused_rounds"),
            "recovery_rounds": total(ok, "recoveries"),
            "recoveries_accepted_at_the_prompt_of_show_status": total(ok, "prompted_recoveries"),
            "completed_runs": sum(1 for r in ok if r.get("complete")),
            "policies": hist(t["args"]["scen"]["policy"]["kind"] for t in tasks),
            "jobs_per_scenario": hist(len(t["args"]["scen"]["jobs"]) for t in tasks),
            "groups_per_scenario": hist(len(t["args"]["scen"]["groups"]) for t in tasks),
            "max_nodes": hist(t["args"]["scen"]["max_nodes"] for t in tasks),
            "time_based_x_try_add": sum(1 for t in tasks if any(g["time_based"] and g["try_add"] for g in t["args"]["scen"]["groups"])),
            "long_delays_injected_at_critical_points": total(ok, "parks"),
            "endgame_rounds_stalled_at": hist(r.get("endgame_stalled_at") for r in ok if r.get("endgame_stalled_at")),
            "inner_icontract_monitor_evaluations": total(ok, "inner_evals"),
            "inner_icontract_monitor_failures_advisory": total(ok, "inner_failure_count"),
            "scenarios_with_full_slurm_state_vocabulary": sum(1 for t in tasks if t["args"]["scen"].get("squeue_vocab") == "full"),
            "runs_with_a_scheduler_outage": sum(1 for r in ok if any(f and f[0] == "squeue_fail" for f in (r.get("faults") or []))),
            "status_queries_failed_by_injection": sum(sum(1 for f in (r.get("faults") or []) if f and f[0] == "squeue_fail") for r in ok),
            "scenarios_with_a_resubmission": sum(1 for t in tasks if (t["args"]["scen"].get("resubmit") or {}).get("rounds")),
            "resubmissions_with_changed_group_parameters": sum(1 for t in tasks for rd in (t["args"]["scen"].get("resubmit") or {}).get("rounds", []) if rd.get("groups")),
            "scenarios_with_parameters_given_as_submit_jobs_options": sum(1 for t in tasks if t["args"]["scen"].get("cli_params") is True),
            "scenarios_with_parameters_given_in_a_submitter_params_file": sum(1 for t in tasks if t["args"]["scen"].get("cli_params") == "file"),
            "scenarios_without_distributed_submitter": sum(1 for t in tasks if any(not g.get("dsub", True) for g in t["args"]["scen"]["groups"])),
            "scenarios_with_glob_metacharacters_in_the_output_directory": sum(1 for t in tasks if any(ch in (t["args"]["scen"].get("outname") or "") for ch in "[]*?{}")),
            "scenarios_with_a_held_slow_blocker": sum(1 for t in tasks if t["args"]["scen"].get("hold_job")),
            "lock_markers_of_live_holders_detached_by_the_lock_library": total(ok, "live_lock_breaks"),
        }

    def counters(self, tasks, results):
        return self.base_counters(tasks, results)

    def floors(self, cov):
        if cov.get("job_launches_checked", 0) < 20:
            return f"only {cov.get('job_launches_checked')} job launches observed"
        return None


# ----------------------------------------------------------------------------------------------- C01
class C01(SimSpec):
    prop = "C01"
    n = {"quick": 360, "thorough": 5000}
    rule = (
        "random DAG scenarios (2-10 jobs quick, up to 14 thorough; listing order shuffled; 1-3 groups; batch size / time-based batching; "
        "max-nodes; try-add-blocked; extra user try-submit-jobs/show-status rounds) under walk/sticky/pct schedules; distinct = (scenario shape, hash "
        "of the sequence of shared-object operations); non-trivial = >= 2 batches handed to sbatch and submitter rounds from >= 2 hosts"
    )

    def gen(self, rng, i, tier):
        scen = scenario.gen_scenario(rng, max_jobs=10 if tier == "quick" else 14)
        if i % 3 == 0:  # the combination the property text names
            for g in scen["groups"]:
                g["time_based"] = True
                g["try_add"] = True
                if g["procs_opt"] is None:
                    g["procs_opt"] = rng.choice([1, 2])
                g["procs"] = g["procs_opt"]
                g["wall_min"] = rng.randint(4, 9)
                g["walltime"] = f"0:{g['wall_min']:02d}:00"
        if i % 4 == 1:
            for g in scen["groups"]:
                g["batch"] = rng.randint(1, 2)
        scen["user"]["try_submit"] = rng.choice([0, 1, 2, 3])
        if i % 10 == 7:
            scenario.to_cli_mode(scen)  # parameters as options of submit-jobs, no groups in the configuration
        if i % 10 == 3:
            for g in scen["groups"]:
                g["dsub"] = False  # --no-distributed-submitter: the nodes never act as submitter, every round is the user's
        if i % 10 == 9:
            scen["outname"] = rng.choice(["out[1]", "sweep[2]/output", "o[ab]c"])  # an output directory with glob metacharacters
        if i % 10 == 5:
            # the scheduler rejects some batches (submit limit, bad account ...): an answer of the scheduler, not a fault of JADE;
            # identifiers and placements must stay unique all the same
            scen["faults"] = {"sbatch_fail_re": rng.choice([r"_batch_2\.sh$", r"_batch_(1|3)\.sh$", r"_batch_(2|5)\.sh$", r"_batch_[2-4]\.sh$"])}
            for g in scen["groups"]:
                g["batch"] = rng.randint(1, 2)
        return scen

    def tasks(self, tier, seed):
        out = SimSpec.tasks(self, tier, seed)
        # the fork server is part of what is checked, not of what is trusted: a few scenarios are executed a second time with
        # fresh interpreters (no fork server, no inner monitors); the boundary traces must be identical
        n = {"quick": 3, "thorough": 16}[tier]
        for k in range(n):
            for fresh in (False, True):
                t = copy.deepcopy(out[k * 7 % len(out)])
                sc = t["args"]["scen"]
                sc["policy"] = {"kind": "det"}  # rng-free schedule: import-time file probing of a fresh interpreter must not matter
                sc["user"] = {}
                sc["no_zygote"] = fresh
                sc["wall_limit"] = 400
                t["args"]["twin"] = k
                t["args"]["fresh"] = fresh
                t["timeout"] = 500
                out.append(t)
        return out

    def nontrivial(self, t, r):
        return (r.get("sbatches") or 0) >= 2 and len(r.get("round_hosts") or []) >= 2 and "twin" not in t["args"]

    def counters(self, tasks, results):
        c = self.base_counters(tasks, results)
        pairs = same = 0
        tw = {}
        for t, r in zip(tasks, results):
            if "twin" in t["args"] and not r.get("error"):
                tw.setdefault(t["args"]["twin"], {})[t["args"]["fresh"]] = r
        for k, d in tw.items():
            if len(d) == 2:
                pairs += 1
                a_, b_ = d[False], d[True]
                same += 1 if (a_.get("sig"), a_.get("sbatches"), a_.get("launches"), a_.get("final_classes")) == (b_.get("sig"), b_.get("sbatches"), b_.get("launches"), b_.get("final_classes")) else 0
        c["fork_server_vs_fresh_interpreter_pairs"] = pairs
        c["pairs_with_identical_boundary_trace"] = same
        return c

    def floors(self, cov):
        if cov.get("sbatch_calls_checked", 0) < 50:
            return "fewer than 50 sbatch calls observed"
        if cov.get("fork_server_vs_fresh_interpreter_pairs", 0) and cov.get("pairs_with_identical_boundary_trace") != cov.get("fork_server_vs_fresh_interpreter_pairs"):
            return "fork server and fresh interpreters produced different boundary traces for the same scenario and seed"
        return SimSpec.floors(self, cov)


# ----------------------------------------------------------------------------------------------- C02
class C02(SimSpec):
    prop = "C02"
    n = {"quick": 360, "thorough": 5000}
    rule = (
        "random DAGs with edge density biased upward, batch sizes chosen so that blockers land in the same batch (try-add-blocked), another batch, "
        "another group and several rounds later; HPC and local mode; a slice followed by resubmit-jobs (order among the rerun jobs); at every job launch the driver reads the result rows on disk; "
        "non-trivial = run with >= 1 dependency edge whose ends ran in different batches or >= 1 inside one batch (local: >= 1 edge), and >= 2 launches"
    )

    def gen(self, rng, i, tier):
        scen = scenario.gen_scenario(rng, max_jobs=10 if tier == "quick" else 14, shapes=["random", "chain", "diamond", "fanin", "fanout", "two"], fail_p=0.3)
        if not any(j["blocked_by"] for j in scen["jobs"]) and len(scen["jobs"]) > 1:
            js = sorted(scen["jobs"], key=lambda j: j["name"])
            js[-1]["blocked_by"] = [js[0]["name"]]
        if i % 6 == 5:
            scen["mode"] = "local"
            scen["groups"] = scen["groups"][:1]
            for j in scen["jobs"]:
                j["group"] = scen["groups"][0]["name"]
            scen["groups"][0]["time_based"] = False
            scen["user"] = {}
        scen["policy"]["finish_w"] = rng.choice([0.1, 0.3, 1.0])  # blockers finish late
        if i % 12 in (10, 7, 1):
            # a collector (or another runner) stalls inside a results-lock hold for longer than the lock timeout while blockers
            # finish: a result that cannot be recorded is not an outcome - whatever waits for that job must not start
            scen["slow_results_holder"] = rng.randint(1, 4)
            scen["user"] = {"try_submit": rng.choice([4, 6]), "show_status": 0, "p": 0.08, "late_try": 2}
            scen["policy"]["finish_w"] = rng.choice([0.02, 0.05])
            for g in scen["groups"]:
                g["try_add"] = True
        if i % 6 == 2:
            # blockers that do not exit but are killed by a signal while the runner survives (out of memory, a user's kill):
            # "killed by signal n" is their outcome, and it has to be on record before anything that waits for them starts
            bl = {b for j in scen["jobs"] for b in j["blocked_by"]}
            for j in scen["jobs"]:
                if j["name"] in bl and rng.random() < 0.6:
                    j["rc"] = rng.choice([-9, -15, -6])
            for g in scen["groups"]:
                g["try_add"] = True
        if i % 12 == 4:
            # a blocker whose command cannot be started on the node (tool not installed there): it never gets an outcome, so
            # nothing that waits for it may start
            roots = [j for j in scen["jobs"] if any(j["name"] in k["blocked_by"] for k in scen["jobs"])]
            if roots:
                rng.choice(roots)["command"] = "/no/such/dir/vsim_missing_tool --run"
                scen["faults"] = {"unstartable_command": True}
                for g in scen["groups"]:
                    g["try_add"] = True
        if i % 6 == 1:
            # one failure cancels several flagged jobs that also wait for a job that is still running, all in one node queue
            sc2 = scenario.gen_scenario(rng, max_jobs=9, min_jobs=5, shapes=["fanfail"], fail_p=0.0)
            by = {j["name"]: j for j in sc2["jobs"]}
            names = sorted(by)
            by[names[0]]["rc"] = rng.choice([1, 3])
            for j in sc2["jobs"]:
                j["flag"] = set(j["blocked_by"]) == {names[0], names[1]}
            sc2["groups"] = sc2["groups"][:1]
            g = sc2["groups"][0]
            g.update(time_based=False, batch=12, try_add=True, procs_opt=rng.choice([2, 3]))
            for j in sc2["jobs"]:
                j["group"] = g["name"]
            if rng.random() < 0.4:
                sc2["mode"] = "local"
                sc2["user"] = {}
            sc2["policy"]["finish_w"] = 0.1
            if rng.random() < 0.7:
                # the slow blocker is still running when the node queue notices the failure
                sc2["hold_job"] = {"job": names[1], "until": names[0], "extra": rng.choice([10, 40, 150])}  # scheduling steps
            return sc2
        if i % 6 == 3:
            # dependency order must also hold among the jobs that a resubmission reruns
            fl = lambda: {"failed": True, "missing": True, "successful": rng.random() < 0.4}
            scen["resubmit"] = {"rounds": [fl()] + ([fl()] if rng.random() < 0.3 else [])}
            for j in scen["jobs"]:
                if rng.random() < 0.35:
                    j["rc"] = rng.choice([1, 2])
            for g in scen["groups"]:
                if g["procs_opt"] == 1:
                    g["procs_opt"] = 2
        return scen

    def tasks(self, tier, seed):
        out = SimSpec.tasks(self, tier, seed)
        for t in out:
            if t["args"]["scen"].get("resubmit"):
                t["args"]["cls"] = "sim.resub:ResubSim"
        return out

    def nontrivial(self, t, r):
        if t["args"]["scen"].get("mode") == "local":
            return (r.get("launches") or 0) >= 2 and any(j["blocked_by"] for j in t["args"]["scen"]["jobs"])
        return (r.get("launches") or 0) >= 2 and ((r.get("edges_cross") or 0) + (r.get("edges_in") or 0)) >= 1

    def counters(self, tasks, results):
        c = self.base_counters(tasks, results)
        ok = [r for r in results if not r.get("error")]
        c["dependency_edges_across_batches"] = total(ok, "edges_cross")
        c["dependency_edges_inside_a_batch"] = total(ok, "edges_in")
        c["local_mode_runs"] = sum(1 for t in tasks if t["args"]["scen"].get("mode") == "local")
        c["jobs_killed_by_a_signal"] = sum(1 for t in tasks for j in t["args"]["scen"]["jobs"] if j["rc"] < 0)
        c["runs_with_a_results_lock_holder_stalled_beyond_the_lock_timeout"] = sum(1 for r in results if not r.get("error") and r.get("slow_results_holder_stalled"))
        c["runs_with_resubmission"] = sum(1 for r in ok if (r.get("epochs") or 1) > 1)
        return c

    def floors(self, cov):
        if cov.get("dependency_edges_across_batches", 0) < 10 or cov.get("dependency_edges_inside_a_batch", 0) < 10:
            return "too few dependency edges exercised across / inside batches"
        return SimSpec.floors(self, cov)


# ----------------------------------------------------------------------------------------------- C03
class C03(SimSpec):
    prop = "C03"
    n = {"quick": 90, "thorough": 700}
    variants = {"quick": 4, "thorough": 8}
    rule = (
        "each generated DAG (exit codes, cancel flags) is run under k parameter sets x schedules (batch sizes, time-based batching, max-nodes, try-add-blocked, "
        "1-3 groups, local vs HPC, walk/sticky/pct); each run's ResultsSummary is compared with the topological evaluation of the DAG; "
        "non-trivial = DAG with >= 1 failing job and >= 1 flagged dependent, run with >= 2 batches (or local); distinct = (parameter set, schedule signature)"
    )

    def tasks(self, tier, seed):
        out = []
        k = 0
        for i in range(self.n[tier]):
            s = sub_seed(seed, i, "C03")
            rng = random.Random(s)
            base = scenario.gen_scenario(rng, max_jobs=9 if tier == "quick" else 12, fail_p=0.6, flag_p=0.6)
            for v in range(self.variants[tier]):
                vr = random.Random(sub_seed(s, v, "var"))
                scen = copy.deepcopy(base)
                alt = scenario.gen_scenario(vr, max_jobs=3)
                groups = scenario.gen_groups(vr, vr.choice([1, 2, 3]))
                scen["groups"] = groups
                for j in scen["jobs"]:
                    j["group"] = vr.choice(groups)["name"]
                used = {j["group"] for j in scen["jobs"]}
                scen["groups"] = [g for g in groups if g["name"] in used]
                scen["max_nodes"] = alt["max_nodes"]
                scen["policy"] = alt["policy"]
                scen["poll"] = alt["poll"]
                scen["user"] = alt["user"]
                scen["hashseed"] = alt["hashseed"]
                if v == self.variants[tier] - 1:
                    scen["mode"] = "local"
                    scen["groups"] = scen["groups"][:1]
                    scen["groups"][0]["time_based"] = False
                    for j in scen["jobs"]:
                        j["group"] = scen["groups"][0]["name"]
                    scen["user"] = {}
                if v == 0 and i % 3 == 0:
                    scenario.to_cli_mode(scen)  # the same DAG with the parameters given as options of submit-jobs
                if v == 0 and i % 3 == 1:
                    for g in scen["groups"]:
                        g["dsub"] = False  # no distributed submitter: only the user's rounds move the submission on
                if v == 0 and i % 3 == 2:
                    scen["outname"] = vr.choice(["out[1]", "sweep[2]/output", "o[ab]c", "out{x}"])  # characters that mean something to glob
                if v == 2:
                    # collection race variant: rounds collect the result files of batches that are still running jobs, with
                    # delays between a collector's read and its delete of a node file
                    scen["policy"]["park_p"] = vr.choice([0.3, 0.5])
                    scen["policy"]["time_w"] = 0.5
                    scen["user"] = {"try_submit": vr.choice([2, 4]), "show_status": 0, "p": 0.04, "late_try": 2}
                    for g in scen["groups"]:
                        g["time_based"] = False
                        g["batch"] = vr.randint(3, 6)
                if v == 1:
                    # end-of-run race variant: late user rounds delayed at their critical points
                    endgame(scen, vr, keep_dag=True)
                    scen["endgame_k"] = 1 + i % 10
                scen["dag_id"] = i
                scenario.normalize(scen)
                out.append(sim_task(scen, sub_seed(s, v, "sched"), k))
                k += 1
        return out

    def nontrivial(self, t, r):
        s = t["args"]["scen"]
        failing = {j["name"] for j in s["jobs"] if j["rc"] != 0}
        dep = any(j["flag"] and set(j["blocked_by"]) & failing for j in s["jobs"])
        return bool(failing) and dep and r.get("complete") and ((r.get("sbatches") or 0) >= 2 or s.get("mode") == "local")

    def counters(self, tasks, results):
        c = self.base_counters(tasks, results)
        per = {}
        for t, r in zip(tasks, results):
            if r.get("error"):
                continue
            d = t["args"]["scen"]["dag_id"]
            per.setdefault(d, set()).add((tuple(sorted((r.get("final_classes") or {}).items())), r.get("complete")))
        c["dags"] = len(per)
        c["dags_with_one_outcome_vector_over_all_variants"] = sum(1 for v in per.values() if len(v) == 1)
        c["local_mode_runs"] = sum(1 for t in tasks if t["args"]["scen"].get("mode") == "local")
        return c

    def second_phase(self, tier, seed, tasks, results):
        # schedule independence, direct form: all variants of one DAG must give one classification vector
        per = {}
        for t, r in zip(tasks, results):
            if r.get("error") or not r.get("complete"):
                continue
            per.setdefault(t["args"]["scen"]["dag_id"], []).append((t, r))
        for d, lst in per.items():
            vecs = {tuple(sorted((r.get("final_classes") or {}).items())) for _, r in lst}
            if len(vecs) > 1:
                t, r = lst[-1]
                r.setdefault("violations", []).append({"prop": "C03", "key": "schedule-dependent-outcome", "text": f"DAG {d}: {len(vecs)} different classification vectors over its variants: {sorted(vecs)[:2]}", "step": 0, "epoch": 0})
        return []


# ----------------------------------------------------------------------------------------------- C04
class C04(SimSpec):
    prop = "C04"
    n = {"quick": 360, "thorough": 5000}
    rule = (
        "chains / diamonds / fan shapes of flagged and unflagged jobs with failures at the head, in the middle and nowhere; batch size 1-3 and max-nodes 1-2 so that the "
        "failing job and its dependents land in the same batch, the next batch and several rounds later; a quarter of the runs in local mode (one queue, listing order independent of dependency order, half of them dependents-first); oracle: canceled rows <=> model, canceled => never started, "
        "unflagged => started exactly once; non-trivial = a cancellation chain of length >= 2 (by the model) in a run with >= 2 batches"
    )

    def gen(self, rng, i, tier):
        scen = scenario.gen_scenario(rng, max_jobs=9 if tier == "quick" else 12, min_jobs=3, shapes=["chain", "chain", "diamond", "fanout", "two", "random"], fail_p=0.0, flag_p=0.7)
        names = sorted(j["name"] for j in scen["jobs"])
        by = {j["name"]: j for j in scen["jobs"]}
        where = rng.choice(["head", "head", "middle", "none", "two"])
        if where == "head":
            by[names[0]]["rc"] = rng.choice([1, 2, 255, -9, -15])  # a job killed by a signal has failed like any other
        elif where == "middle":
            by[names[len(names) // 2]]["rc"] = 1
        elif where == "two":
            by[names[0]]["rc"] = 1
            by[names[-2]]["rc"] = 3
        for g in scen["groups"]:
            g["batch"] = rng.randint(1, 3)
            if rng.random() < 0.7:
                g["time_based"] = False
        scen["max_nodes"] = rng.choice([None, 1, 1, 2])
        if i % 8 in (1, 6):
            # local mode: every job goes through ONE queue in listing order, which is independent of dependency order (a
            # batch built by a submitter always lists blockers first) - deep cancellation chains listed deepest-first, with
            # other jobs queued behind them
            scen["mode"] = "local"
            scen["groups"] = scen["groups"][:1]
            scen["groups"][0]["time_based"] = False
            for j in scen["jobs"]:
                j["group"] = scen["groups"][0]["name"]
            scen["user"] = {}
            if rng.random() < 0.5:
                scen["jobs"].sort(key=lambda j: j["name"], reverse=True)  # names follow dependency order: reversed = dependents first
            if rng.random() < 0.6:
                # a long cancellation chain: the head fails, (nearly) everything downstream is flagged
                by[names[0]]["rc"] = rng.choice([1, 2, 255, -9])
                for j in scen["jobs"]:
                    j["flag"] = j["name"] != names[0] and rng.random() < 0.85
        if i % 8 == 3:
            # the same rule among the jobs that a resubmission reruns: the head fails again (or not) and its flagged dependents,
            # placed in the same / a later batch, must be canceled again exactly when a rerun blocker failed
            for j in scen["jobs"]:
                j["rc2"] = j["rc"] if rng.random() < 0.6 else rng.choice([0, 0, 1])
            if not any(j["rc"] for j in scen["jobs"]):
                by[names[0]]["rc"] = 1
                by[names[0]]["rc2"] = 1
            scen["resubmit"] = {"rounds": [{"failed": True, "missing": True, "successful": rng.random() < 0.3}]}
        return scen

    def tasks(self, tier, seed):
        out = SimSpec.tasks(self, tier, seed)
        for t in out:
            if t["args"]["scen"].get("resubmit"):
                t["args"]["cls"] = "sim.resub:ResubSim"
        return out

    @staticmethod
    def chain_len(scen):
        m = model.evaluate(scen["jobs"])
        by = {j["name"]: j for j in scen["jobs"]}
        memo = {}

        def depth(n):
            if m[n][0] != "canceled":
                return 0
            if n not in memo:
                memo[n] = 1 + max([depth(b) for b in by[n]["blocked_by"]] + [0])
            return memo[n]

        return max([depth(n) for n in by] + [0])

    def nontrivial(self, t, r):
        return self.chain_len(t["args"]["scen"]) >= 2 and ((r.get("sbatches") or 0) >= 2 or t["args"]["scen"].get("mode") == "local") and r.get("complete")

    def counters(self, tasks, results):
        c = self.base_counters(tasks, results)
        node = sub = 0
        for r in results:
            cs = r.get("cancel_sites") or {}
            node += cs.get("node", 0)
            sub += cs.get("submitter", 0)
        c["cancellations_recorded_on_a_node"] = node
        c["cancellations_recorded_by_a_submitter"] = sub
        c["local_mode_runs"] = sum(1 for t in tasks if t["args"]["scen"].get("mode") == "local")
        c["model_cancel_chain_lengths"] = hist(self.chain_len(t["args"]["scen"]) for t in tasks)
        return c

    def floors(self, cov):
        if cov.get("cancellations_recorded_on_a_node", 0) < 5 or cov.get("cancellations_recorded_by_a_submitter", 0) < 5:
            return "one of the two cancellation sites (node / submitter) was hardly exercised"
        return SimSpec.floors(self, cov)


# ----------------------------------------------------------------------------------------------- C05
class C05(SimSpec):
    prop = "C05"
    n = {"quick": 360, "thorough": 5000}
    rule = (
        "fault-free scenarios with schedules that favour the refused-promotion ending (a node's final try-submit-jobs runs while another process still holds the "
        "submitter role), so that the run goes idle incomplete and needs the documented recovery (try-submit-jobs or show-status -n); every recovery round must hand a "
        "batch to sbatch or complete; every promoted round that leaves a ready job unsubmitted must be justified by max-nodes from its own squeue replies; the completion "
        "flag is observed at most once per submission, after results.json, with all results present; non-trivial = run with >= 1 recovery round, or >= 3 rounds from >= 2 hosts"
    )

    def gen(self, rng, i, tier):
        scen = scenario.gen_scenario(rng, max_jobs=10 if tier == "quick" else 14)
        if i % 2 == 0:
            scen["policy"]["kind"] = "sticky"
            scen["policy"]["sticky"] = rng.choice([0.9, 0.97])
            scen["policy"]["finish_w"] = 3.0
        if i % 3 == 0:
            scen["max_nodes"] = rng.choice([1, 2])
            for g in scen["groups"]:
                g["batch"] = rng.randint(1, 2)
        scen["user"] = {"try_submit": rng.choice([0, 0, 1]), "show_status": rng.choice([0, 1])}
        if i % 8 == 3:
            # progress and laziness are also judged in the rounds of a resubmission (ready = the rerun blockers have outcomes)
            fl = lambda: {"failed": True, "missing": True, "successful": rng.random() < 0.3}
            scen["resubmit"] = {"rounds": [fl()]}
            for j in scen["jobs"]:
                if rng.random() < 0.35:
                    j["rc"] = rng.choice([1, 2])
        if i % 8 == 7:
            for g in scen["groups"]:
                g["dsub"] = False  # --no-distributed-submitter: progress only through the user's rounds, each of which is judged
        if i % 8 == 5:
            endgame(scen, rng)
            scen["endgame_k"] = 1 + (i // 8) % 10  # which critical point of the late round is stalled: all of them in turn
        elif i % 8 == 1:
            # race slice: several user rounds overlapping the last batches, long delays at the points between a round's
            # result scan, its scheduler poll and its status update
            scen["user"] = {"try_submit": rng.choice([1, 3, 4]), "show_status": rng.choice([0, 1]), "p": rng.choice([0.02, 0.05]), "late_try": rng.choice([1, 2, 3])}
            scen["policy"]["park_p"] = rng.choice([0.3, 0.5])
            scen["policy"]["kind"] = rng.choice(["walk", "sticky"])
            scen["policy"]["finish_w"] = rng.choice([0.2, 1.0])
        return scen

    def tasks(self, tier, seed):
        out = SimSpec.tasks(self, tier, seed)
        for t in out:
            if t["args"]["scen"].get("resubmit"):
                t["args"]["cls"] = "sim.resub:ResubSim"
        return out

    def nontrivial(self, t, r):
        return (r.get("recoveries") or 0) >= 1 or ((r.get("rounds") or 0) >= 3 and len(r.get("round_hosts") or []) >= 2)

    def counters(self, tasks, results):
        c = self.base_counters(tasks, results)
        ok = [r for r in results if not r.get("error")]
        c["runs_that_needed_recovery"] = sum(1 for r in ok if (r.get("recoveries") or 0) >= 1)
        c["rounds_checked_for_laziness"] = total(ok, "lazy_checked")
        c["rounds_that_left_ready_jobs"] = total(ok, "lazy_ready_seen")
        c["of_which_justified_by_max_nodes"] = total(ok, "lazy_justified")
        return c

    def floors(self, cov):
        if cov.get("runs_that_needed_recovery", 0) < 5:
            return "fewer than 5 runs needed the documented recovery"
        if cov.get("rounds_checked_for_laziness", 0) < 50:
            return "fewer than 50 rounds reached the lazy-round oracle"
        return SimSpec.floors(self, cov)


# ----------------------------------------------------------------------------------------------- C06
class C06(SimSpec):
    prop = "C06"
    n = {"quick": 320, "thorough": 4500}
    rule = (
        "max-nodes 1-3 with many small batches and processes-per-node 1-3 (or unset: the node's 3 CPUs); the adversary holds jobs open (low finish weight) and starts queued "
        "batches late so that both limits are reached; oracle: scheduler truth queued+running <= max-nodes after every sbatch, live job processes per node <= limit at every launch; "
        "non-trivial = run in which the batch limit or a node's process limit was actually reached"
    )

    def gen(self, rng, i, tier):
        scen = scenario.gen_scenario(rng, max_jobs=12 if tier == "quick" else 16, min_jobs=4, shapes=["random", "random", "fanout", "two"])
        scen["max_nodes"] = rng.choice([1, 2, 3])
        for j in scen["jobs"]:
            if rng.random() < 0.6:
                j["blocked_by"] = []
        for g in scen["groups"]:
            g["batch"] = rng.randint(1, 4)
            if rng.random() < 0.75:
                g["time_based"] = False
        scen["policy"]["finish_w"] = rng.choice([0.02, 0.05, 0.2])
        scen["policy"]["start_w"] = rng.choice([0.05, 0.2, 1.0])
        scen["user"]["try_submit"] = rng.choice([0, 1, 2, 3])
        if i % 8 == 3:
            # scheduler outage: the status query of one or two rounds fails through all its retries while batches are active and
            # jobs are still unsubmitted; "the scheduler did not answer" must not be read as "no batch is active"
            scen["faults"] = {"squeue_fail": 1.0, "squeue_fail_budget": rng.choice([7, 7, 14]), "max_recoveries": 12, "outage_freeze": rng.random() < 0.5}
            scen["max_nodes"] = rng.choice([1, 2])
        if i % 8 == 5:
            scenario.to_cli_mode(scen)  # -n / -q / -b given as options of submit-jobs
        if i % 8 == 7:
            scen["mode"] = "local"
            scen["groups"] = scen["groups"][:1]
            scen["groups"][0]["time_based"] = False
            scen["groups"][0]["procs_opt"] = rng.choice([1, 2, 3])
            scen["groups"][0]["procs"] = scen["groups"][0]["procs_opt"]
            for j in scen["jobs"]:
                j["group"] = scen["groups"][0]["name"]
            scen["user"] = {}
        return scen

    @staticmethod
    def reached(t, r):
        s = t["args"]["scen"]
        node_lim = min((g["procs_opt"] or 3) for g in s["groups"])
        a = s.get("mode") != "local" and s["max_nodes"] and (r.get("max_active") or 0) >= s["max_nodes"]
        b = (r.get("max_live") or 0) >= node_lim
        return bool(a), bool(b)

    def nontrivial(self, t, r):
        a, b = self.reached(t, r)
        return a or b

    def counters(self, tasks, results):
        c = self.base_counters(tasks, results)
        ra = rb = 0
        for t, r in zip(tasks, results):
            if r.get("error"):
                continue
            a, b = self.reached(t, r)
            ra += a
            rb += b
        c["runs_reaching_max_nodes"] = ra
        c["runs_reaching_a_node_process_limit"] = rb
        c["max_active_batches_seen"] = hist(r.get("max_active") for r in results if not r.get("error"))
        c["max_live_processes_seen"] = hist(r.get("max_live") for r in results if not r.get("error"))
        return c

    def floors(self, cov):
        if cov.get("runs_reaching_max_nodes", 0) < 10:
            return "the max-nodes limit was reached in fewer than 10 runs"
        if cov.get("runs_reaching_a_node_process_limit", 0) < 10:
            return "a node process limit was reached in fewer than 10 runs"
        return SimSpec.floors(self, cov)


# ----------------------------------------------------------------------------------------------- C09
class C09(SimSpec):
    prop = "C09"
    n = {"quick": 360, "thorough": 5000}
    rule = (
        "fault-free submissions with extra user rounds, a share with cancel-jobs and a share followed by resubmit-jobs; the driver reads the status through the public API "
        "(Cluster.deserialize + get_status_summary) after every release of the cluster lock and at idle instants, and inside resubmit-jobs/cancel-jobs before each file mutation; "
        "invariants at every observation, monotonicity between consecutive observations of one (re)submission; non-trivial = run with >= 20 observations whose updates mixed "
        "submissions and completions (>= 2 batches)"
    )

    def gen(self, rng, i, tier):
        scen = scenario.gen_scenario(rng, max_jobs=10 if tier == "quick" else 14)
        scen["user"] = {"try_submit": rng.choice([0, 1, 2]), "show_status": rng.choice([0, 1, 2])}
        scen["obs_inside"] = True
        if i % 5 == 1:
            scen["cancel"] = rng.choice([0.01, 0.02, 0.03])
        if i % 5 == 2:
            fl = lambda: {"failed": rng.random() < 0.8, "missing": rng.random() < 0.8, "successful": rng.random() < 0.3}
            scen["resubmit"] = {"rounds": [fl()] + ([fl()] if rng.random() < 0.3 else [])}
            scen["reports"] = rng.random() < 0.3
            for j in scen["jobs"]:
                if rng.random() < 0.3:
                    j["rc"] = 1
        if i % 10 == 7:
            fl = lambda: {"failed": rng.random() < 0.8, "missing": rng.random() < 0.6, "successful": rng.random() < 0.3}
            scen["resubmit"] = {"rounds": [fl()]}
            scen["faults"] = {"node_kill": 1, "node_kill_w": 0.03}
        return scen

    def tasks(self, tier, seed):
        out = SimSpec.tasks(self, tier, seed)
        for t in out:
            if t["args"]["scen"].get("resubmit"):
                t["args"]["cls"] = "sim.resub:ResubSim"
        return out

    def nontrivial(self, t, r):
        return (r.get("obs") or 0) >= 20 and (r.get("sbatches") or 0) >= 2

    def counters(self, tasks, results):
        c = self.base_counters(tasks, results)
        ok = [r for r in results if not r.get("error")]
        c["observations_per_run"] = hist(min(200, 20 * ((r.get("obs") or 0) // 20)) for r in ok)
        c["unreadable_instants"] = total(ok, "obs_unreadable")
        c["runs_with_cancel"] = sum(1 for r in ok if r.get("canceled"))
        c["runs_with_resubmission"] = sum(1 for r in ok if (r.get("epochs") or 1) > 1)
        return c

    def floors(self, cov):
        if cov.get("lock_free_status_observations", 0) < 2000:
            return "fewer than 2000 lock-free observations"
        return SimSpec.floors(self, cov)


# ----------------------------------------------------------------------------------------------- C14
class C14(SimSpec):
    prop = "C14"
    n = {"quick": 320, "thorough": 4500}
    rule = (
        "submissions in which the user runs cancel-jobs at a random moment (batches queued / running / some finished / jobs still unsubmitted because of max-nodes or "
        "dependencies), followed by further try-submit-jobs / show-status -n rounds; scancel kills the node at a driver-chosen later point; oracle: no successful sbatch after the "
        "first lock-free observation with is_canceled, every id persisted at cancel-jobs' promotion received scancel, rows present at the cancel are present at the end, never-run "
        "jobs reported missing at completion; in a quarter of the runs the completed, canceled submission is then resubmitted by the user (resubmit-jobs --no-failed, then try-submit-jobs and "
        "show-status again): still no sbatch; non-trivial = cancel became visible while >= 1 job was unsubmitted and >= 1 batch was active"
    )

    def gen(self, rng, i, tier):
        scen = scenario.gen_scenario(rng, max_jobs=10 if tier == "quick" else 14, min_jobs=4)
        scen["cancel"] = rng.choice([0.005, 0.02, 0.05, 0.2])
        scen["cancel_complete"] = rng.random() < 0.8
        scen["cancel_host"] = rng.choice(["login", "login2"])
        scen["scancel_gone_fails"] = rng.random() < 0.5  # scancel of a batch that has already left the scheduler's books fails (exit 1)
        if i % 2 == 0:
            scen["max_nodes"] = rng.choice([1, 1, 2])
            for g in scen["groups"]:
                g["batch"] = rng.randint(1, 3)
        scen["user"] = {"try_submit": rng.choice([1, 2, 3]), "show_status": rng.choice([0, 1, 2]), "p": 0.02}
        scen["policy"]["finish_w"] = rng.choice([0.05, 0.2, 1.0])
        if i % 4 == 3:
            # once the canceled submission has completed, the user runs resubmit-jobs on it (jobs that never ran), then
            # try-submit-jobs / show-status again: no batch may follow
            scen["resubmit_after_cancel"] = rng.choice([1, 1, 2])
            scen["cancel_complete"] = True
        if i % 8 == 5:
            # a scheduler outage (all status queries of 1-2 rounds fail) before the user cancels: the batches that were active
            # during the outage are still JADE's to cancel
            scen["faults"] = {"squeue_fail": 1.0, "squeue_fail_budget": rng.choice([7, 7, 14]), "max_recoveries": 12, "outage_freeze": True}
            scen["cancel"] = rng.choice([0.002, 0.005])
            scen["cancel_after_outage"] = rng.random() < 0.8  # the user cancels as soon as the scheduler answers again
            scen["user"] = {"try_submit": rng.choice([2, 3]), "show_status": 0, "p": 0.05, "late_try": 1}
            scen["policy"]["finish_w"] = rng.choice([0.01, 0.03])
            for g in scen["groups"]:
                g["time_based"] = False
                g["batch"] = rng.randint(1, 3)
        return scen

    def nontrivial(self, t, r):
        return bool(r.get("canceled")) and (r.get("cancel_unsubmitted") or 0) >= 1 and (r.get("cancel_active") or 0) >= 1

    def counters(self, tasks, results):
        c = self.base_counters(tasks, results)
        ok = [r for r in results if not r.get("error")]
        c["runs_where_cancel_became_visible"] = sum(1 for r in ok if r.get("canceled"))
        c["scancel_calls"] = total(ok, "scancels")
        c["sbatch_calls_after_cancel_command_started"] = total(ok, "sbatch_after_cancel_cmd")
        c["canceled_runs_reaching_completion"] = sum(1 for r in ok if r.get("canceled") and r.get("complete"))
        c["canceled_runs_not_reaching_completion"] = sum(1 for r in ok if r.get("canceled") and not r.get("complete"))
        c["nodes_killed_by_scancel"] = total(ok, "killed_nodes")
        c["resubmit_jobs_commands_on_a_canceled_submission"] = total(ok, "resub_after_cancel")
        c["scancel_calls_that_failed_because_the_batch_was_already_gone"] = total(ok, "scancel_failures")
        return c

    def floors(self, cov):
        if cov.get("runs_where_cancel_became_visible", 0) < 30:
            return "cancel became visible in fewer than 30 runs"
        return None


# ----------------------------------------------------------------------------------------------- C16
class C16(SimSpec):
    prop = "C16"
    n = {"quick": 320, "thorough": 4000}
    rule = (
        "all 16 subsets of {setup, teardown, node setup, node teardown} x local/HPC mode x DAGs with and without failures; the commands are probes that report host, node, "
        "environment and the instant; oracle: setup once on the submitting host before the first sbatch; teardown once per completion, after every job has an outcome and before the "
        "completion flag; node setup before / node teardown after the batch's jobs, once per batch, with JADE_RUNTIME_OUTPUT and JADE_SUBMISSION_GROUP; results still recorded; a slice with a lost node (completion through the forced completion with missing jobs: teardown still exactly once); "
        "non-trivial = >= 2 lifecycle commands configured and observed, run complete; distinct adds the configured subset"
    )

    def gen(self, rng, i, tier):
        scen = scenario.gen_scenario(rng, max_jobs=8 if tier == "quick" else 12)
        sub = i % 16
        scen["hooks"] = {"setup": bool(sub & 1), "teardown": bool(sub & 2), "nsetup": bool(sub & 4), "nteardown": bool(sub & 8)}
        if (i // 16) % 4 == 3:
            scen["mode"] = "local"
            scen["groups"] = scen["groups"][:1]
            scen["groups"][0]["time_based"] = False
            for j in scen["jobs"]:
                j["group"] = scen["groups"][0]["name"]
            scen["user"] = {}
        if rng.random() < 0.15:
            scen["hooks"]["rc"] = {rng.choice(["teardown", "nteardown"]): 1}
        if (i // 16) % 4 == 2 and (i // 64) % 2 == 0:
            scenario.to_cli_mode(scen)  # the default group: JADE_SUBMISSION_GROUP=default on the nodes
        if (i // 16) % 4 == 0 and (i // 64) % 2 == 1:
            # a node is lost (walltime, node failure): the submission completes through the forced completion with missing jobs -
            # that is a completion like any other for the teardown command ("whether jobs passed or failed")
            scen["faults"] = {"node_kill": 1, "node_kill_w": rng.choice([0.02, 0.05])}
            scen["hooks"]["teardown"] = True
        if (i // 16) % 4 == 1:
            # scheduler outage while several batches run: the status query of one or two rounds fails through all its retries;
            # "no answer" must not be taken for "everything has finished" (teardown / completion before the last outcomes)
            scen["faults"] = {"squeue_fail": 1.0, "squeue_fail_budget": rng.choice([7, 7, 14]), "max_recoveries": 12, "outage_freeze": rng.random() < 0.8}
            free = rng.random() < 0.7  # everything is handed over in the first round: the outage hits a round with nothing left to submit
            for j in scen["jobs"]:
                if free or rng.random() < 0.6:
                    j["blocked_by"] = []
            for g in scen["groups"]:
                g["time_based"] = False
                g["batch"] = rng.randint(2, 3)
            if free:
                scen["max_nodes"] = None
            # jobs outlast the round that runs into the outage (a user looking in, or the first node that finishes)
            scen["policy"]["finish_w"] = rng.choice([0.01, 0.02, 0.03])
            scen["user"] = {"try_submit": rng.choice([1, 2]), "show_status": 0, "p": 0.05, "late_try": 1}
        return scen

    def shape(self, t, r):
        h = t["args"]["scen"]["hooks"]
        return SimSpec.shape(self, t, r) + "".join(k[0:2] for k in ("setup", "teardown", "nsetup", "nteardown") if h.get(k))

    def nontrivial(self, t, r):
        h = t["args"]["scen"]["hooks"]
        return sum(1 for k in ("setup", "teardown", "nsetup", "nteardown") if h.get(k)) >= 2 and len(r.get("hook_kinds") or []) >= 2 and r.get("complete")

    def counters(self, tasks, results):
        c = self.base_counters(tasks, results)
        ok = [r for r in results if not r.get("error")]
        c["lifecycle_command_launches_checked"] = total(ok, "hooks")
        c["subsets_exercised"] = len({tuple(sorted(k for k in ("setup", "teardown", "nsetup", "nteardown") if t["args"]["scen"]["hooks"].get(k))) for t in tasks})
        c["runs_with_a_lost_node_completed_with_missing_jobs_and_teardown_counted"] = sum(1 for t, r in zip(tasks, results) if not r.get("error") and (t["args"]["scen"].get("faults") or {}).get("node_kill") and r.get("complete") and (r.get("killed_nodes") or 0) >= 1)
        c["local_mode_runs"] = sum(1 for t in tasks if t["args"]["scen"].get("mode") == "local")
        return c

    def floors(self, cov):
        if cov.get("lifecycle_command_launches_checked", 0) < 100:
            return "fewer than 100 lifecycle command launches observed"
        if cov.get("subsets_exercised", 0) < 16:
            return "not all 16 subsets exercised"
        return None


# ----------------------------------------------------------------------------------------------- C12
def add_cycle(rng, scen):
    js = scen["jobs"]
    if len(js) < 2:
        return
    a, b = rng.sample(js, 2)
    if b["name"] not in a["blocked_by"]:
        a["blocked_by"].append(b["name"])
    if a["name"] not in b["blocked_by"]:
        b["blocked_by"].append(a["name"])
    scen["cycle"] = True


class C12(SimSpec):
    prop = "C12"
    n = {"quick": 330, "thorough": 3000}
    rule = (
        "fault scenarios: (a) 1-2 nodes killed at random scheduling points before or while their jobs run (probes die with the node; the batch vanishes from squeue), "
        "(b) sbatch failing after all retries or answering without a job id for a random subset of batches, (c) dependency cycles, (d) thorough: every scheduling point of one "
        "node's run-jobs enumerated as a kill point by replaying the same schedule; then the documented recovery until idle; oracle at completion: missing_jobs == configured minus "
        "results, finished rows only for probes that really exited with that code, canceled rows only if justified, no start with a missing blocker, rows ever seen still present, "
        "completion reached; non-trivial = >= 1 lost batch or cycle and >= 1 job that finished elsewhere, with a dependent of a lost job present"
    )

    def gen(self, rng, i, tier):
        scen = scenario.gen_scenario(rng, max_jobs=10 if tier == "quick" else 14, min_jobs=3, fail_p=0.3)
        kind = i % 4
        if kind == 0:
            scen["faults"] = {"node_kill": rng.choice([1, 1, 2]), "node_kill_w": rng.choice([0.01, 0.03, 0.1])}
            scen["policy"]["finish_w"] = rng.choice([0.05, 0.2, 1.0])
        elif kind == 1:
            scen["faults"] = {"sbatch_fail": rng.choice([0.2, 0.5])}
        elif kind == 2:
            scen["faults"] = {"sbatch_garbage": rng.choice([0.2, 0.5])}
        else:
            add_cycle(rng, scen)
            if rng.random() < 0.5:
                scen["faults"] = {"node_kill": 1, "node_kill_w": 0.03}
        for g in scen["groups"]:
            g["batch"] = rng.randint(1, 3)
        scen["fault_kind"] = ["node_kill", "sbatch_fail", "sbatch_garbage", "cycle"][kind]
        if i % 8 == 4:
            # end-of-run window with node loss: a late user round is stalled at one of its critical points while the last
            # batches record their final results and are then killed before their own submitter round
            endgame(scen, rng)
            scen["endgame_k"] = 1 + (i // 8) % 10
            scen["endgame_kill"] = True
            scen["faults"] = {"node_kill": 3, "node_kill_w": 0.0}
            scen["fault_kind"] = "endgame_node_kill"
        elif i % 8 == 2:
            # node loss, then resubmit-jobs (the missing jobs and their dependents), then node loss again during the resubmission:
            # the accounting clauses hold for the resubmission as for the first submission
            scen["faults"] = {"node_kill": 1, "node_kill_w": rng.choice([0.03, 0.1])}
            scen["resubmit"] = {"rounds": [{"failed": True, "missing": True, "successful": False}], "faults": {"node_kill": 1, "node_kill_w": rng.choice([0.03, 0.1])}}
            for g in scen["groups"]:
                g["batch"] = rng.randint(1, 2)
            scen["fault_kind"] = "node_kill_resubmit_node_kill"
        elif i % 8 == 6:
            # collection race with node loss: rounds (nodes' own and the user's) collect the result files of batches that are
            # still running jobs, with long delays between a collector's read and its delete of a node file, and one node dies
            scen["faults"] = {"node_kill": 1, "node_kill_w": rng.choice([0.01, 0.03])}
            scen["policy"]["park_p"] = rng.choice([0.3, 0.5])
            scen["policy"]["time_w"] = 0.5
            scen["user"] = {"try_submit": rng.choice([2, 4]), "show_status": 0, "p": 0.04, "late_try": 2}
            for g in scen["groups"]:
                g["time_based"] = False
                g["batch"] = rng.randint(3, 6)
            scen["fault_kind"] = "collection_race_node_kill"
        return scen

    def tasks(self, tier, seed):
        out = SimSpec.tasks(self, tier, seed)
        # retries of a failing sbatch take 6 x 10 virtual seconds: nothing to pay in wall time
        for t in out:
            if t["args"]["scen"].get("resubmit"):
                t["args"]["cls"] = "sim.resub:ResubSim"
        return out

    def second_phase(self, tier, seed, tasks, results):
        """Enumeration of node-kill points: take base runs (fault-free part of the campaign is replayed with the
        same seed), record the scheduling points of one run-jobs process, re-execute with a kill at each."""
        nbase = {"quick": 2, "thorough": 10}[tier]
        extra = []
        k = len(tasks)
        for b in range(nbase):
            s = sub_seed(seed, b, "C12enum")
            rng = random.Random(s)
            scen = scenario.normalize(scenario.gen_scenario(rng, max_jobs=7, min_jobs=4, fail_p=0.2))
            for g in scen["groups"]:
                g["batch"] = rng.randint(2, 3)
            scen["user"] = {}
            scen["policy"] = {"kind": "sticky", "sticky": 0.7, "finish_w": 1.0, "start_w": 1.0, "time_w": 0.0}
            ordn = rng.choice([0, 0, 1])
            npoints = {"quick": 45, "thorough": 400}[tier]
            for kp in range(1, npoints + 1):
                for fl in ("", "legacy") if tier == "thorough" else ("",):
                    sc = copy.deepcopy(scen)
                    sc["faults"] = {"killnode_at": [ordn, kp], "record_run_points": ordn}
                    sc["filelock"] = fl
                    sc["fault_kind"] = "enumerated_node_kill"
                    sc["enum_base"] = b
                    extra.append(sim_task(sc, s, k))
                    k += 1
        return extra

    def nontrivial(self, t, r):
        s = t["args"]["scen"]
        lost = (r.get("killed_nodes") or 0) + sum(1 for f in (r.get("faults") or []) if f and f[0].startswith("sbatch"))
        return (lost >= 1 or s.get("cycle")) and r.get("complete") and len(r.get("final_classes") or {}) >= 1 and bool(r.get("missing"))

    def shape(self, t, r):
        return SimSpec.shape(self, t, r) + str(t["args"]["scen"].get("fault_kind")) + str((t["args"]["scen"].get("faults") or {}).get("killnode_at"))

    def counters(self, tasks, results):
        c = self.base_counters(tasks, results)
        ok = [r for r in results if not r.get("error")]
        c["nodes_killed"] = total(ok, "killed_nodes")
        c["sbatch_failures_injected"] = sum(1 for r in ok for f in (r.get("faults") or []) if f and f[0] in ("sbatch_fail", "sbatch_garbage"))
        c["cycle_scenarios"] = sum(1 for t in tasks if t["args"]["scen"].get("cycle"))
        c["runs_with_missing_jobs_reported"] = sum(1 for r in ok if r.get("missing"))
        c["runs_reaching_completion"] = sum(1 for r in ok if r.get("complete"))
        c["fault_kinds"] = hist(t["args"]["scen"].get("fault_kind") for t in tasks)
        sites = set()
        npts = 0
        for t, r in zip(tasks, results):
            if t["args"]["scen"].get("fault_kind") == "enumerated_node_kill" and not r.get("error"):
                for f in r.get("faults") or []:
                    if f and f[0] == "node_kill":
                        sites.add(f[2])
                        npts += 1
        c["enumerated_node_kill_points_hit"] = npts
        c["enumerated_node_kill_site_classes"] = len(sites)
        c["enumerated_site_class_examples"] = sorted(sites)[:12]
        return c

    def floors(self, cov):
        if cov.get("nodes_killed", 0) < 30:
            return "fewer than 30 nodes killed"
        if cov.get("sbatch_failures_injected", 0) < 20:
            return "fewer than 20 sbatch failures injected"
        if cov.get("runs_with_missing_jobs_reported", 0) < 30:
            return "fewer than 30 runs ended with missing jobs reported"
        return None


# ----------------------------------------------------------------------------------------------- C13
class C13(SimSpec):
    prop = "C13"
    n = {"quick": 300, "thorough": 3500}
    rule = (
        "a base submission run to completion (successful / failed / canceled jobs by exit codes and flags; missing jobs through a killed node; with and without report generation), "
        "then `jade resubmit-jobs` with a random flag combination (--failed/--no-failed, --missing/--no-missing, --successful/--no-successful), run to completion, in a share of runs "
        "followed by a second resubmission; a share runs the command on an incomplete submission instead (idle, or while another process holds the submitter role, from the same or "
        "another host) and a share injects a kill / EDQUOT into resubmit-jobs itself and then tries the documented commands; oracle: started set == closure of the selection (minus "
        "canceled), each once, dependency order with the new outcomes, other results identical, one entry per job afterwards; refusal is harmless; a share first passes `-s` a groups file that does not fit the submission (the command must fail, erase nothing, keep no role; the real command follows); non-trivial = resubmission with a "
        "non-empty closure strictly larger than the direct selection, or a refusal while another process held the role (a small slice with an error injected into the command is informational only)"
    )
    task_timeout = 200

    def gen(self, rng, i, tier):
        scen = scenario.gen_scenario(rng, max_jobs=9 if tier == "quick" else 12, min_jobs=3, fail_p=0.6, flag_p=0.5)
        scen["reports"] = rng.random() < 0.35
        kind = i % 6
        rs = {"rounds": []}
        def flags():
            return {"failed": rng.random() < 0.8, "missing": rng.random() < 0.8, "successful": rng.random() < 0.25}
        if kind in (0, 1, 2):
            rs["rounds"] = [flags()] + ([flags()] if rng.random() < 0.3 else [])
            if kind == 2:
                scen["faults"] = {"node_kill": 1, "node_kill_w": rng.choice([0.02, 0.05])}
        elif kind == 3:
            rs["early_p"] = rng.choice([0.02, 0.05, 0.2])
            rs["rounds"] = [flags()]
        elif kind == 4:
            rs["idle"] = True
            rs["rounds"] = [flags()]
            scen["policy"]["kind"] = "sticky"
            scen["policy"]["sticky"] = 0.95
            scen["policy"]["finish_w"] = 3.0
            scen["max_nodes"] = rng.choice([1, 2])
        elif i % 12 == 5:
            # informational slice (not part of the verdict: C13 does not quantify over injected faults)
            rs["rounds"] = [{"failed": True, "missing": True, "successful": rng.random() < 0.5}]
            rs["faults"] = {"crash_cmd": ["resubmit-jobs", rng.randint(1, 80), "raise"]}
        else:
            rs["rounds"] = [flags(), flags()] + ([flags()] if rng.random() < 0.3 else [])
            kind = 6
        if i % 24 == 11:
            # the scheduler does not answer while the round started by resubmit-jobs runs (all status queries of 1-2 rounds fail)
            rs["rounds"] = [flags()]
            rs["faults"] = {"squeue_fail": 1.0, "squeue_fail_budget": rng.choice([7, 7, 14]), "max_recoveries": 12}
            kind = 7
        if kind in (1, 6) and rs["rounds"] and rng.random() < 0.6:
            # resubmit-jobs -s <edited copy of submitter_groups.json>: new limits and HPC parameters for the same groups
            rs["rounds"][0]["groups"] = scenario.changed_groups(rng, scen["groups"])
        if kind in (0, 6) and rs["rounds"] and i % 3 == 0:
            # before the real command the user passes a groups file that does not fit the submission: a failure of the command
            # by its input, which must erase nothing and leave the way to the real command open
            rs["rounds"][0]["bad_groups"] = rng.choice(["length", "name"])
        scen["resubmit"] = rs
        scen["resub_kind"] = ["plain", "plain", "with_missing", "refuse_busy", "refuse_idle", "fault_in_command", "repeated", "scheduler_outage"][kind]
        scen["obs_inside"] = kind in (0, 1)
        return scen

    def tasks(self, tier, seed):
        out = SimSpec.tasks(self, tier, seed)
        for t in out:
            t["args"]["cls"] = "sim.resub:ResubSim"
        return out

    def shape(self, t, r):
        return SimSpec.shape(self, t, r) + t["args"]["scen"]["resub_kind"] + str(t["args"]["scen"]["resubmit"].get("rounds"))

    def nontrivial(self, t, r):
        sizes = r.get("resub_sizes") or []
        grew = any(c > s_ and c > 0 for (s_, c, l) in sizes)
        return grew or (r.get("refusals_checked") or 0) >= 1

    def counters(self, tasks, results):
        c = self.base_counters(tasks, results)
        ok = [r for r in results if not r.get("error")]
        c["resubmissions_checked"] = total(ok, "resubmissions_checked")
        c["refusals_checked"] = total(ok, "refusals_checked")
        c["faults_in_resubmit_command_checked"] = total(ok, "resub_fault_checked")
        c["commands_failing_on_a_malformed_groups_file_checked"] = total(ok, "bad_groups_checked")
        c["scenario_kinds"] = hist(t["args"]["scen"]["resub_kind"] for t in tasks)
        c["with_reports"] = sum(1 for t in tasks if t["args"]["scen"]["reports"])
        c["closure_larger_than_selection"] = sum(1 for r in ok for (s_, cl, l) in (r.get("resub_sizes") or []) if cl > s_)
        c["flag_combinations"] = len({json_key(fl) for t in tasks for fl in t["args"]["scen"]["resubmit"].get("rounds", [])})
        return c

    def floors(self, cov):
        if cov.get("resubmissions_checked", 0) < 60:
            return "fewer than 60 resubmissions reached the oracle"
        if cov.get("refusals_checked", 0) < 15:
            return "fewer than 15 refusals observed"
        return None


# ----------------------------------------------------------------------------------------------- C11
class C11(SimSpec):
    prop = "C11"
    level = "fault_enumeration"
    rule = (
        "fault enumeration by replay: for each base scenario a reference run numbers the scheduling points (lock operations, file mutations, directory scans, external "
        "commands, sleeps) of one submitter round - the login submit-jobs or a later try-submit-jobs on a compute node or from the user; the scenario is then re-executed with the "
        "same schedule and at point k one of: kill of the process, death of the whole node (rounds on compute nodes), torn write (write-opens), OSError(EDQUOT) (writes/renames/removes), lock acquisition failure (lock points), sbatch failing "
        "after all retries / answering garbage, squeue failing after all retries; then a random continuation (other nodes finish and try rounds, the user runs try-submit-jobs / "
        "show-status from two hosts) to quiescence, under both lock-library behaviours; oracles over the whole faulty history: no job handed to sbatch twice, none started twice, "
        "none started before its blockers have outcomes, every result row ever seen still on disk; after a squeue failure the run must reach the fault-free outcome; "
        "distinct = (base, round, point k, fault kind, lock mode, continuation); non-trivial = the fault was actually injected and at least one later submitter round ran"
    )
    nbase = {"quick": 3, "thorough": 12}
    task_timeout = 200

    def base_scen(self, seed, b):
        s = sub_seed(seed, b, "C11base")
        rng = random.Random(s)
        scen = scenario.gen_scenario(rng, max_jobs=9, min_jobs=5, fail_p=0.3)
        for g in scen["groups"]:
            g["batch"] = rng.randint(1, 3)
            g["time_based"] = False
        scen["max_nodes"] = rng.choice([None, None, 3])
        # several batches per round: most jobs unblocked
        for j in scen["jobs"]:
            if rng.random() < 0.5:
                j["blocked_by"] = []
        scen["user"] = {}
        scen["policy"] = {"kind": rng.choice(["sticky", "walk"]), "sticky": 0.7, "finish_w": 1.0, "start_w": 1.0, "time_w": 0.0}
        scen["c11"] = True
        scenario.normalize(scen)
        return s, scen

    def tasks(self, tier, seed):
        out = []
        for b in range(self.nbase[tier]):
            s, scen = self.base_scen(seed, b)
            # which round: 0 = the login node's submit-jobs; later ordinals = try-submit-jobs on nodes
            for ordn in ((0, 1) if tier == "quick" else (0, 1, 2, 3)):
                sc = copy.deepcopy(scen)
                sc["faults"] = {"record_points": ordn, "max_recoveries": 3}
                sc["enum"] = {"base": b, "ord": ordn, "ref": True}
                out.append(sim_task(sc, s, len(out)))
        # transient scheduler-query failures: every squeue call fails with some probability (a single failure is absorbed by
        # the retries inside the round, seven in a row abort the round); the run must still reach the fault-free outcome
        for q in range({"quick": 40, "thorough": 400}[tier]):
            s = sub_seed(seed, q, "C11squeue")
            rng = random.Random(s)
            sc = scenario.normalize(scenario.gen_scenario(rng, max_jobs=8, min_jobs=3, fail_p=0.3))
            sc["faults"] = {"squeue_fail": rng.choice([0.3, 0.7, 1.0, 1.0]), "squeue_fail_budget": rng.choice([1, 3, 7, 8, 15, 30]), "max_recoveries": 12}
            # several batches run concurrently and their jobs run long, so that a round is hit while other batches are alive
            for j in sc["jobs"]:
                if rng.random() < 0.6:
                    j["blocked_by"] = []
            for g in sc["groups"]:
                g["time_based"] = False
                g["batch"] = rng.randint(2, 4)
            sc["max_nodes"] = rng.choice([None, None, 3])
            sc["policy"]["finish_w"] = rng.choice([0.03, 0.1])
            if q % 2 == 0:
                # the failing query hits a user round that looks in while every batch is still running its last jobs
                endgame(sc, rng, keep_dag=True)
                sc["endgame_k"] = 99  # no stall: the round just runs into the failing scheduler
                sc["faults"]["squeue_fail"] = 1.0
                sc["faults"]["squeue_fail_budget"] = rng.choice([1, 6, 7, 7, 7, 14])
            sc["c11"] = True
            sc["user"] = {"try_submit": rng.choice([0, 1, 2]), "show_status": 0}
            sc["enum"] = {"base": f"sq{q}", "ord": -1, "ref": False, "kind": "squeue_transient"}
            out.append(sim_task(sc, s, len(out)))
        # pipelines: a `jade pipeline submit-next-stage` command (the submitter round that configures and submits the next stage) is
        # hit by an error at its k-th file operation; the user runs the same command again (twice) - no job of that stage may be
        # handed to the HPC twice
        c15 = C15()
        for q in range({"quick": 24, "thorough": 300}[tier]):
            s = sub_seed(seed, q, "C11pipe")
            rng = random.Random(s)
            sc = scenario.normalize(c15.gen(rng, 9, tier))  # index 9 selects the error-and-retry family of C15's generator
            while len(sc["stages"]) < 2:
                sc = scenario.normalize(c15.gen(rng, 9, tier))
            sc["faults"] = {"crash_cmd": ["submit-next-stage", rng.randint(1, 110), rng.choice(["raise", "raise", "die"])]}
            sc["retry_next_stage"] = True
            sc["c11"] = True
            sc["enum"] = {"base": f"pipe{q}", "ord": -1, "ref": False, "kind": "pipeline_next_stage"}
            t = sim_task(sc, s, len(out))
            t["args"]["cls"] = "sim.pipe:PipeSim"
            t["args"]["prepare"] = "sim.pipe:prepare"
            out.append(t)
        return out

    def second_phase(self, tier, seed, tasks, results):
        extra = []
        k0 = len(tasks)
        for t, r in zip(tasks, results):
            if r.get("error") or t["args"]["scen"]["enum"].get("kind") == "squeue_transient":
                continue
            en = t["args"]["scen"]["enum"]
            pts = (r.get("sub_classes") or {}).get(str(en["ord"])) or (r.get("sub_classes") or {}).get(en["ord"]) or []
            K = len(pts)
            if K == 0:
                continue
            if tier == "quick":
                # stratified: every first occurrence of a site class, thinned to ~36 points per round
                # (a site class is the operation, the object class and how many sbatch calls of this round precede it:
                #  what a fault can do depends on whether something was already handed to the HPC in this round)
                first = {}
                nsb_before = 0
                for i, c in enumerate(pts):
                    first.setdefault(tuple(c) + (min(nsb_before, 2),), i + 1)
                    if c[0] == "popen" and c[1] == "sbatch":
                        nsb_before += 1
                ks = sorted(first.values())
                step = max(1, len(ks) // 60)
                ks = ks[::step]
                modes = [("", 0)]
            else:
                ks = list(range(1, K + 1))
                modes = [("", 0), ("legacy", 0), ("", 1)]
            nsb = sum(1 for c in pts if c[0] == "popen" and c[1] == "sbatch")
            nsq = sum(1 for c in pts if c[0] == "popen" and c[1] == "squeue")
            base = t["args"]["scen"]
            def add(faults, fl, kind):
                sc = copy.deepcopy(base)
                sc["faults"] = dict(faults, record_points=en["ord"], max_recoveries=3)
                sc["filelock"] = fl
                sc["enum"] = dict(en, ref=False, kind=kind)
                extra.append(sim_task(sc, t["args"]["seed"], k0 + len(extra)))
            for kp in ks:
                cls = pts[kp - 1]
                ev, basef, mode = cls
                is_wopen = ev == "open" and mode in ("w", "a", "creat", "wr", "excl")
                is_mut = is_wopen or ev in ("os.rename", "os.remove", "os.mkdir")
                for fl, cont in modes:
                    add({"crash_at": [en["ord"], kp, "die"], "cont": cont}, fl, "kill")
                    if en["ord"] > 0 and (tier == "thorough" or kp % 3 == 0):
                        add({"crash_at": [en["ord"], kp, "nodekill"], "cont": cont}, fl, "node_dies_in_round")
                    if is_mut:
                        add({"crash_at": [en["ord"], kp, "raise"], "cont": cont}, fl, "edquot")
                    if is_wopen and mode == "w" and (tier == "thorough" or kp % 2 == 0):  # torn write: only an open that truncates can lose what was there
                        add({"crash_at": [en["ord"], kp, "torn"], "cont": cont}, fl, "torn")
                    if ev == "open" and mode == "excl" and basef.endswith(".lock"):
                        add({"crash_at": [en["ord"], kp, "lockfail"], "cont": cont}, fl, "lockfail")
            for fl, cont in modes:
                for n in range(1, min(nsb, 3 if tier == "quick" else 8) + 1):
                    add({"rpc_at": [en["ord"], "sbatch", n, "fail"], "cont": cont}, fl, "sbatch_fail")
                    add({"rpc_at": [en["ord"], "sbatch", n, "garbage"], "cont": cont}, fl, "sbatch_garbage")
                for n in range(1, min(nsq, 2 if tier == "quick" else 6) + 1):
                    add({"rpc_at": [en["ord"], "squeue", n, "fail"], "cont": cont}, fl, "squeue_fail")
        return extra

    def shape(self, t, r):
        sc = t["args"]["scen"]
        return f"{sc['enum']}{sc['faults'].get('crash_at')}{sc['faults'].get('rpc_at')}{sc['faults'].get('cont')}{sc.get('filelock')}"

    def nontrivial(self, t, r):
        return bool(r.get("faults")) and (r.get("rounds") or 0) >= 2

    def sample(self, t, r):
        sc = t["args"]["scen"]
        return {"base_scenario": brief(sc), "enumeration": sc["enum"], "fault": sc["faults"], "lock_mode": sc.get("filelock") or "installed filelock", "injected": r.get("faults"), "observed": run_brief(r)}

    def counters(self, tasks, results):
        c = self.base_counters(tasks, results)
        sites = set()
        kinds = {}
        injected = 0
        diverged = 0
        for t, r in zip(tasks, results):
            if r.get("error"):
                continue
            en = t["args"]["scen"]["enum"]
            if en.get("ref"):
                continue
            if en.get("kind") == "squeue_transient":
                nq = sum(1 for f in (r.get("faults") or []) if f and f[0] == "squeue_fail")
                if nq:
                    injected += 1
                    kinds["squeue_fail"] = kinds.get("squeue_fail", 0) + nq
                continue
            fs = r.get("faults") or []
            if fs:
                injected += 1
                f = fs[0]
                rk = "submit-jobs" if en["ord"] == 0 else "try-submit-jobs"
                sites.add((rk, f[0], str(f[3]) if len(f) > 3 else ""))
                kinds[en["kind"]] = kinds.get(en["kind"], 0) + 1
            else:
                diverged += 1
        ok = [r for r in results if not r.get("error")]
        c["reference_runs"] = sum(1 for t in tasks if t["args"]["scen"]["enum"].get("ref"))
        c["transient_squeue_failure_runs"] = sum(1 for t in tasks if t["args"]["scen"]["enum"].get("kind") == "squeue_transient")
        c["fault_executions"] = sum(1 for t in tasks if not t["args"]["scen"]["enum"].get("ref"))
        c["faults_actually_injected"] = injected
        c["fault_point_not_reached"] = diverged
        c["crash_site_classes_hit"] = len(sites)
        c["crash_site_class_examples"] = [list(x) for x in sorted(sites)[:25]]
        c["by_fault_kind"] = kinds
        c["lock_modes"] = hist((t["args"]["scen"].get("filelock") or "installed") for t in tasks)
        c["runs_ending_stuck_or_incomplete"] = sum(1 for r in ok if not r.get("complete"))
        c["runs_reaching_completion_after_fault"] = sum(1 for r in ok if r.get("complete") and r.get("faults"))
        return c

    def floors(self, cov):
        if cov.get("faults_actually_injected", 0) < 100:
            return "fewer than 100 faults injected"
        if cov.get("crash_site_classes_hit", 0) < 40:
            return "fewer than 40 distinct crash-site classes hit"
        for k in ("kill", "edquot", "torn", "lockfail", "sbatch_fail", "squeue_fail"):
            if cov.get("by_fault_kind", {}).get(k, 0) < (20 if k == "squeue_fail" else 2):
                return f"fault kind {k} injected fewer than 2 times"
        return None


# ----------------------------------------------------------------------------------------------- C15
class C15(SimSpec):
    prop = "C15"
    n = {"quick": 200, "thorough": 2500}
    task_timeout = 200
    rule = (
        "pipelines of 1-4 stages (1-4 jobs each, dependencies, failures, flags) created through PipelineManager.create_config_from_files and run with `jade pipeline submit`, "
        "HPC and local mode, random schedules incl. user try-submit-jobs / show-status on the current stage; a slice with a killed node (missing jobs -> non-zero stage return code) and a slice in "
        "which, after the pipeline completed, the user runs resubmit-jobs on one stage (that stage completes again: later stages and pipeline.json must be left alone); oracle on boundary events: stage k+1's config.json is first written only "
        "after stage k was observed complete (lock-free observation and on-disk flag), each stage configured once, one submit-next-stage per completion, pipeline.json stage_num / "
        "return codes / is_complete match what happened; in a third of the pipelines every stage has its own teardown command, which must have run before the next stage is configured; non-trivial = >= 2 stages submitted and completed; distinct adds the number of stages"
    )

    def gen(self, rng, i, tier):
        base = scenario.gen_scenario(rng, max_jobs=3)
        ns = rng.choice([1, 2, 2, 3, 3, 4])
        stages = []
        for k in range(1, ns + 1):
            sub = scenario.gen_scenario(rng, max_jobs=4, min_jobs=1, fail_p=0.4)
            js = []
            ren = {j["name"]: f"s{k}{j['name']}" for j in sub["jobs"]}
            for j in sub["jobs"]:
                js.append(dict(j, name=ren[j["name"]], blocked_by=[ren[b] for b in j["blocked_by"]], group="default"))
            stages.append(js)
        g = scenario.gen_groups(rng, 1)[0]
        g.update(name="default", time_based=False, prefix="job", dsub=True, verbose=False)
        scen = dict(base, jobs=[j for st in stages for j in st], stages=stages, groups=[g], kind="pipe")
        scen["user"] = {"try_submit": rng.choice([0, 1, 2]), "show_status": rng.choice([0, 1])}
        if i % 5 == 4:
            scen["mode"] = "local"
            scen["user"] = {}
        elif i % 5 == 2:
            # a killed node leaves missing jobs, so that a stage passes a non-zero return code on
            scen["faults"] = {"node_kill": 1, "node_kill_w": rng.choice([0.02, 0.05])}
        elif i % 5 in (1, 3):
            # history extension: once the pipeline is complete the user resubmits the failed jobs of one stage
            scen["resubmit_stage"] = True
        if i % 5 == 0:
            # the user looks in (try-submit-jobs on the current stage) while its batches are alive and the scheduler reports them in
            # any live state of its vocabulary (suspended, requeued, resizing ...): the stage is not over
            scen["squeue_vocab"] = "full"
            scen["user"] = {"try_submit": rng.choice([2, 3, 4]), "show_status": 0, "p": rng.choice([0.03, 0.08]), "late_try": 2}
            scen["policy"]["finish_w"] = rng.choice([0.02, 0.05])
        scen["stage_teardown"] = i % 3 == 1  # every stage has its own teardown command; stage k+1 only after stage k's teardown
        if i % 10 == 9 and ns >= 2:
            # an error (EDQUOT at one of its writes) hits a `jade pipeline submit-next-stage` command somewhere between its first and
            # its last file operation; the user then runs the same command again: a stage is never configured twice
            scen["faults"] = {"crash_cmd": ["submit-next-stage", rng.randint(1, 110), "raise"]}
            scen["retry_next_stage"] = True
            scen.pop("resubmit_stage", None)
            scen["mode"] = None
        if i % 10 == 7 and ns >= 2:
            # every sbatch of one stage is rejected: that stage completes synchronously with an error inside the process that
            # submitted it, and the following stages are submitted from nested processes
            k = rng.randint(1, ns)
            scen["faults"] = {"sbatch_fail_re": f"output-stage{k}/"}
            scen.pop("resubmit_stage", None)
        return scen

    def tasks(self, tier, seed):
        out = SimSpec.tasks(self, tier, seed)
        for t in out:
            t["args"]["cls"] = "sim.pipe:PipeSim"
            t["args"]["prepare"] = "sim.pipe:prepare"
        return out

    def shape(self, t, r):
        return SimSpec.shape(self, t, r) + f"st{len(t['args']['scen']['stages'])}"

    def nontrivial(self, t, r):
        return (r.get("stages_submitted") or 0) >= 2 and r.get("pipeline_complete")

    def sample(self, t, r):
        sc = t["args"]["scen"]
        return {"stages": [[f"{j['name']}<-{','.join(j['blocked_by'])} rc={j['rc']}" for j in st] for st in sc["stages"]], "mode": sc.get("mode"), "seed": t["args"]["seed"],
                "observed": dict(run_brief(r), stages_submitted=r.get("stages_submitted"), next_stage_cmds=r.get("next_stage_cmds"), pipeline_complete=r.get("pipeline_complete"))}

    def counters(self, tasks, results):
        c = self.base_counters(tasks, results)
        ok = [r for r in results if not r.get("error")]
        c["stages_submitted"] = total(ok, "stages_submitted")
        c["submit_next_stage_commands_checked"] = total(ok, "next_stage_cmds")
        c["pipelines_completed"] = sum(1 for r in ok if r.get("pipeline_complete"))
        c["stages_per_pipeline"] = hist(len(t["args"]["scen"]["stages"]) for t in tasks)
        c["pipelines_with_a_stage_resubmitted_after_completion"] = sum(1 for r in ok if r.get("stage_resubmitted"))
        c["submit_next_stage_commands_hit_by_an_error_and_retried"] = total(ok, "next_stage_retries")
        c["pipelines_with_a_killed_node"] = sum(1 for r in ok if (r.get("killed_nodes") or 0) >= 1)
        c["pipelines_with_a_stage_rejected_by_sbatch"] = sum(1 for t in tasks if (t["args"]["scen"].get("faults") or {}).get("sbatch_fail_re"))
        c["nonzero_stage_return_codes_seen"] = total(ok, "nonzero_stage_rcs")
        c["local_mode_runs"] = sum(1 for t in tasks if t["args"]["scen"].get("mode") == "local")
        c["pipelines_whose_stages_have_a_teardown_command"] = sum(1 for t in tasks if t["args"]["scen"].get("stage_teardown"))
        c["stage_submissions_checked_against_the_previous_stage_teardown"] = total(ok, "teardown_checks")
        return c

    def floors(self, cov):
        if cov.get("submit_next_stage_commands_checked", 0) < 100:
            return "fewer than 100 submit-next-stage commands observed"
        return None


def json_key(d):
    import json as _j

    return _j.dumps(d, sort_keys=True)


# slices added during validation (DESIGN 10.5): appended to the rules so that the evidence files describe them
_MORE = {
    C01: "; slices: parameters as options of submit-jobs (default group), --no-distributed-submitter, batches persistently rejected by the scheduler, output directories with glob metacharacters, fork-server/fresh-interpreter twins",
    C02: "; slices: one failure cancelling 2-3 flagged jobs that also wait for a slow job that is held running, a blocker whose command cannot be started, resubmissions, blockers killed by a signal, a collector stalled beyond the lock timeout inside a busy batch's node-file lock (thin)",
    C03: "; variants also with parameters as submit-jobs options, --no-distributed-submitter, glob metacharacters in the output directory, late user rounds stalled at each critical point (endgame), collection races",
    C04: "; slice: the same rule among the jobs rerun by a resubmission (blocker fails again / succeeds); local mode (one queue in listing order, dependents first), signal-killed heads; fault-free runs that end incomplete are judged too (startable jobs never started)",
    C05: "; slices: collection races, endgame (late user round stalled at its k-th critical point), resubmissions, --no-distributed-submitter; recoveries accepted at the prompt of show-status (stdin)",
    C06: "; slices: scheduler outage (all status queries of 1-2 rounds fail, nothing finishes meanwhile), limits given as submit-jobs options, local mode",
    C12: "; slices: endgame with node loss, collection race with node loss, node loss -> resubmission -> node loss",
    C13: "; slices: resubmit-jobs -s with changed group parameters, scheduler outage during the round started by resubmit-jobs (verdict-bearing), a groups file that does not fit the submission (command fails on its input, real command follows)",
    C14: "; slice: scheduler outage followed by cancel-jobs; active batches are also taken from the scheduler's own books at the promotion of cancel-jobs; scancel failing for batches already gone; the completed canceled submission resubmitted by the user; a promoted cancel-jobs must mark the submission canceled",
    C15: "; slices: full SLURM state vocabulary with user rounds (no next stage before every job of the previous one has an outcome), every sbatch of one stage rejected, submit-next-stage hit by an error and retried by the user, stages with their own teardown command (next stage only after the previous stage's teardown)",
    C16: "; slices: scheduler outage while several batches run, parameters as submit-jobs options (default group), a lost node (forced completion with missing jobs)",
    C11: "; plus transient status-query failures and pipelines whose submit-next-stage command is hit by an error / kill and retried",
}
for _c, _t in _MORE.items():
    _c.rule = _c.rule + _t

SPECS = {c.prop: c for c in (C01, C02, C03, C04, C05, C06, C09, C11, C12, C13, C14, C15, C16)}
