"""Check specifications for the system-level properties decided on full simulations (SIM engine)."""
import copy
import random

from core import sub_seed, total, hist
from sim import scenario, model


def sim_task(scen, seed, i, **kw):
    args = {"scen": scen, "seed": seed, "id": i, "trace_n": 150}
    args.update(kw)
    return {"fn": "sim", "args": args}


def brief(scen):
    """Compact, readable form of a scenario for evidence samples."""
    return {
        "jobs": [f"{j['name']}<-{','.join(j['blocked_by'])} rc={j['rc']}{' flag' if j['flag'] else ''} est={j['est']} {j['group']}" for j in scen["jobs"]],
        "groups": [
            f"{g['name']}: " + (f"time-based {g['wall_min']}min x {g['procs']}" if g["time_based"] else f"batch {g['batch']}") + f" procs={g['procs_opt']} try_add={g['try_add']}"
            for g in scen["groups"]
        ],
        "max_nodes": scen["max_nodes"],
        "mode": scen.get("mode"),
        "policy": scen["policy"]["kind"],
        "user": scen.get("user"),
        "hooks": scen.get("hooks") or None,
        "faults": scen.get("faults") or None,
    }


def run_brief(r):
    keys = ("steps", "switches", "sbatches", "launches", "obs", "recoveries", "rounds", "round_hosts", "promoted_rounds", "refused_rounds", "max_active", "max_live", "complete", "sig", "final_classes")
    return {k: r.get(k) for k in keys}


class SimSpec:
    level = "exploration"
    zygote = True
    task_timeout = 150
    assumptions = [
        "simulated SLURM (sbatch/squeue/scancel executables answering from the driver's scheduler state) stands in for a real scheduler",
        "open->write->close of one file and SoftFileLock marker creation are atomic at the scheduler's granularity (audit events)",
        "one kernel: Lustre/NFS coherence effects are not modelled",
    ]
    n = {"quick": 300, "thorough": 4000}

    def gen(self, rng, i, tier):
        return scenario.gen_scenario(rng)

    def tasks(self, tier, seed):
        out = []
        for i in range(self.n[tier]):
            s = sub_seed(seed, i, self.prop)
            rng = random.Random(s)
            scen = scenario.normalize(self.gen(rng, i, tier))
            out.append(sim_task(scen, s, i))
        return out

    def shape(self, t, r):
        s = t["args"]["scen"]
        return f"{len(s['jobs'])}j{len(s['groups'])}g{s['max_nodes']}{s.get('mode')}"

    def sample(self, t, r):
        return {"scenario": brief(t["args"]["scen"]), "seed": t["args"]["seed"], "observed": run_brief(r)}

    def base_counters(self, tasks, results):
        ok = [r for r in results if not r.get("error")]
        return {
            "scheduling_steps": total(ok, "steps"),
            "context_switches": total(ok, "switches"),
            "sbatch_calls_checked": total(ok, "sbatches"),
            "job_launches_checked": total(ok, "launches"),
            "lock_free_status_observations": total(ok, "obs"),
            "submitter_rounds": total(ok, "rounds"),
            "promoted_rounds": total(ok, "promoted_rounds"),
            "refused_rounds": total(ok, "refused_rounds"),
            "recovery_rounds": total(ok, "recoveries"),
            "completed_runs": sum(1 for r in ok if r.get("complete")),
            "policies": hist(t["args"]["scen"]["policy"]["kind"] for t in tasks),
            "jobs_per_scenario": hist(len(t["args"]["scen"]["jobs"]) for t in tasks),
            "groups_per_scenario": hist(len(t["args"]["scen"]["groups"]) for t in tasks),
            "max_nodes": hist(t["args"]["scen"]["max_nodes"] for t in tasks),
            "time_based_x_try_add": sum(1 for t in tasks if any(g["time_based"] and g["try_add"] for g in t["args"]["scen"]["groups"])),
        }

    def counters(self, tasks, results):
        return self.base_counters(tasks, results)

    def floors(self, cov):
        if cov.get("job_launches_checked", 0) < 20:
            return f"only {cov.get('job_launches_checked')} job launches observed"
        return None


# ----------------------------------------------------------------------------------------------- C01
class C01(SimSpec):
    prop = "C01"
    n = {"quick": 360, "thorough": 5000}
    rule = (
        "random DAG scenarios (2-10 jobs quick, up to 14 thorough; listing order shuffled; 1-3 groups; batch size / time-based batching; "
        "max-nodes; try-add-blocked; extra user try-submit-jobs/show-status rounds) under walk/sticky/pct schedules; distinct = (scenario shape, hash "
        "of the sequence of shared-object operations); non-trivial = >= 2 batches handed to sbatch and submitter rounds from >= 2 hosts"
    )

    def gen(self, rng, i, tier):
        scen = scenario.gen_scenario(rng, max_jobs=10 if tier == "quick" else 14)
        if i % 3 == 0:  # the combination the property text names
            for g in scen["groups"]:
                g["time_based"] = True
                g["try_add"] = True
                if g["procs_opt"] is None:
                    g["procs_opt"] = rng.choice([1, 2])
                g["procs"] = g["procs_opt"]
                g["wall_min"] = rng.randint(4, 9)
                g["walltime"] = f"0:{g['wall_min']:02d}:00"
        if i % 4 == 1:
            for g in scen["groups"]:
                g["batch"] = rng.randint(1, 2)
        scen["user"]["try_submit"] = rng.choice([0, 1, 2, 3])
        return scen

    def nontrivial(self, t, r):
        return (r.get("sbatches") or 0) >= 2 and len(r.get("round_hosts") or []) >= 2

    def floors(self, cov):
        if cov.get("sbatch_calls_checked", 0) < 50:
            return "fewer than 50 sbatch calls observed"
        return SimSpec.floors(self, cov)


# ----------------------------------------------------------------------------------------------- C02
class C02(SimSpec):
    prop = "C02"
    n = {"quick": 360, "thorough": 5000}
    rule = (
        "random DAGs with edge density biased upward, batch sizes chosen so that blockers land in the same batch (try-add-blocked), another batch, "
        "another group and several rounds later; HPC and local mode; at every job launch the driver reads the result rows on disk; "
        "non-trivial = run with >= 1 dependency edge whose ends ran in different batches or >= 1 inside one batch (local: >= 1 edge), and >= 2 launches"
    )

    def gen(self, rng, i, tier):
        scen = scenario.gen_scenario(rng, max_jobs=10 if tier == "quick" else 14, shapes=["random", "chain", "diamond", "fanin", "fanout", "two"], fail_p=0.3)
        if not any(j["blocked_by"] for j in scen["jobs"]) and len(scen["jobs"]) > 1:
            js = sorted(scen["jobs"], key=lambda j: j["name"])
            js[-1]["blocked_by"] = [js[0]["name"]]
        if i % 6 == 5:
            scen["mode"] = "local"
            scen["groups"] = scen["groups"][:1]
            for j in scen["jobs"]:
                j["group"] = scen["groups"][0]["name"]
            scen["groups"][0]["time_based"] = False
            scen["user"] = {}
        scen["policy"]["finish_w"] = rng.choice([0.1, 0.3, 1.0])  # blockers finish late
        return scen

    def nontrivial(self, t, r):
        if t["args"]["scen"].get("mode") == "local":
            return (r.get("launches") or 0) >= 2 and any(j["blocked_by"] for j in t["args"]["scen"]["jobs"])
        return (r.get("launches") or 0) >= 2 and ((r.get("edges_cross") or 0) + (r.get("edges_in") or 0)) >= 1

    def counters(self, tasks, results):
        c = self.base_counters(tasks, results)
        ok = [r for r in results if not r.get("error")]
        c["dependency_edges_across_batches"] = total(ok, "edges_cross")
        c["dependency_edges_inside_a_batch"] = total(ok, "edges_in")
        c["local_mode_runs"] = sum(1 for t in tasks if t["args"]["scen"].get("mode") == "local")
        return c

    def floors(self, cov):
        if cov.get("dependency_edges_across_batches", 0) < 10 or cov.get("dependency_edges_inside_a_batch", 0) < 10:
            return "too few dependency edges exercised across / inside batches"
        return SimSpec.floors(self, cov)


# ----------------------------------------------------------------------------------------------- C03
class C03(SimSpec):
    prop = "C03"
    n = {"quick": 90, "thorough": 700}
    variants = {"quick": 4, "thorough": 8}
    rule = (
        "each generated DAG (exit codes, cancel flags) is run under k parameter sets x schedules (batch sizes, time-based batching, max-nodes, try-add-blocked, "
        "1-3 groups, local vs HPC, walk/sticky/pct); each run's ResultsSummary is compared with the topological evaluation of the DAG; "
        "non-trivial = DAG with >= 1 failing job and >= 1 flagged dependent, run with >= 2 batches (or local); distinct = (parameter set, schedule signature)"
    )

    def tasks(self, tier, seed):
        out = []
        k = 0
        for i in range(self.n[tier]):
            s = sub_seed(seed, i, "C03")
            rng = random.Random(s)
            base = scenario.gen_scenario(rng, max_jobs=9 if tier == "quick" else 12, fail_p=0.6, flag_p=0.6)
            for v in range(self.variants[tier]):
                vr = random.Random(sub_seed(s, v, "var"))
                scen = copy.deepcopy(base)
                alt = scenario.gen_scenario(vr, max_jobs=3)
                groups = scenario.gen_groups(vr, vr.choice([1, 2, 3]))
                scen["groups"] = groups
                for j in scen["jobs"]:
                    j["group"] = vr.choice(groups)["name"]
                used = {j["group"] for j in scen["jobs"]}
                scen["groups"] = [g for g in groups if g["name"] in used]
                scen["max_nodes"] = alt["max_nodes"]
                scen["policy"] = alt["policy"]
                scen["poll"] = alt["poll"]
                scen["user"] = alt["user"]
                scen["hashseed"] = alt["hashseed"]
                if v == self.variants[tier] - 1:
                    scen["mode"] = "local"
                    scen["groups"] = scen["groups"][:1]
                    scen["groups"][0]["time_based"] = False
                    for j in scen["jobs"]:
                        j["group"] = scen["groups"][0]["name"]
                    scen["user"] = {}
                scen["dag_id"] = i
                scenario.normalize(scen)
                out.append(sim_task(scen, sub_seed(s, v, "sched"), k))
                k += 1
        return out

    def nontrivial(self, t, r):
        s = t["args"]["scen"]
        failing = {j["name"] for j in s["jobs"] if j["rc"] != 0}
        dep = any(j["flag"] and set(j["blocked_by"]) & failing for j in s["jobs"])
        return bool(failing) and dep and r.get("complete") and ((r.get("sbatches") or 0) >= 2 or s.get("mode") == "local")

    def counters(self, tasks, results):
        c = self.base_counters(tasks, results)
        per = {}
        for t, r in zip(tasks, results):
            if r.get("error"):
                continue
            d = t["args"]["scen"]["dag_id"]
            per.setdefault(d, set()).add((tuple(sorted((r.get("final_classes") or {}).items())), r.get("complete")))
        c["dags"] = len(per)
        c["dags_with_one_outcome_vector_over_all_variants"] = sum(1 for v in per.values() if len(v) == 1)
        c["local_mode_runs"] = sum(1 for t in tasks if t["args"]["scen"].get("mode") == "local")
        return c

    def second_phase(self, tier, seed, tasks, results):
        # schedule independence, direct form: all variants of one DAG must give one classification vector
        per = {}
        for t, r in zip(tasks, results):
            if r.get("error") or not r.get("complete"):
                continue
            per.setdefault(t["args"]["scen"]["dag_id"], []).append((t, r))
        for d, lst in per.items():
            vecs = {tuple(sorted((r.get("final_classes") or {}).items())) for _, r in lst}
            if len(vecs) > 1:
                t, r = lst[-1]
                r.setdefault("violations", []).append({"prop": "C03", "key": "schedule-dependent-outcome", "text": f"DAG {d}: {len(vecs)} different classification vectors over its variants: {sorted(vecs)[:2]}", "step": 0, "epoch": 0})
        return []


# ----------------------------------------------------------------------------------------------- C04
class C04(SimSpec):
    prop = "C04"
    n = {"quick": 360, "thorough": 5000}
    rule = (
        "chains / diamonds / fan shapes of flagged and unflagged jobs with failures at the head, in the middle and nowhere; batch size 1-3 and max-nodes 1-2 so that the "
        "failing job and its dependents land in the same batch, the next batch and several rounds later; oracle: canceled rows <=> model, canceled => never started, "
        "unflagged => started exactly once; non-trivial = a cancellation chain of length >= 2 (by the model) in a run with >= 2 batches"
    )

    def gen(self, rng, i, tier):
        scen = scenario.gen_scenario(rng, max_jobs=9 if tier == "quick" else 12, min_jobs=3, shapes=["chain", "chain", "diamond", "fanout", "two", "random"], fail_p=0.0, flag_p=0.7)
        names = sorted(j["name"] for j in scen["jobs"])
        by = {j["name"]: j for j in scen["jobs"]}
        where = rng.choice(["head", "head", "middle", "none", "two"])
        if where == "head":
            by[names[0]]["rc"] = rng.choice([1, 2, 255])
        elif where == "middle":
            by[names[len(names) // 2]]["rc"] = 1
        elif where == "two":
            by[names[0]]["rc"] = 1
            by[names[-2]]["rc"] = 3
        for g in scen["groups"]:
            g["batch"] = rng.randint(1, 3)
            if rng.random() < 0.7:
                g["time_based"] = False
        scen["max_nodes"] = rng.choice([None, 1, 1, 2])
        return scen

    @staticmethod
    def chain_len(scen):
        m = model.evaluate(scen["jobs"])
        by = {j["name"]: j for j in scen["jobs"]}
        memo = {}

        def depth(n):
            if m[n][0] != "canceled":
                return 0
            if n not in memo:
                memo[n] = 1 + max([depth(b) for b in by[n]["blocked_by"]] + [0])
            return memo[n]

        return max([depth(n) for n in by] + [0])

    def nontrivial(self, t, r):
        return self.chain_len(t["args"]["scen"]) >= 2 and (r.get("sbatches") or 0) >= 2 and r.get("complete")

    def counters(self, tasks, results):
        c = self.base_counters(tasks, results)
        node = sub = 0
        for r in results:
            cs = r.get("cancel_sites") or {}
            node += cs.get("node", 0)
            sub += cs.get("submitter", 0)
        c["cancellations_recorded_on_a_node"] = node
        c["cancellations_recorded_by_a_submitter"] = sub
        c["model_cancel_chain_lengths"] = hist(self.chain_len(t["args"]["scen"]) for t in tasks)
        return c

    def floors(self, cov):
        if cov.get("cancellations_recorded_on_a_node", 0) < 5 or cov.get("cancellations_recorded_by_a_submitter", 0) < 5:
            return "one of the two cancellation sites (node / submitter) was hardly exercised"
        return SimSpec.floors(self, cov)


# ----------------------------------------------------------------------------------------------- C05
class C05(SimSpec):
    prop = "C05"
    n = {"quick": 360, "thorough": 5000}
    rule = (
        "fault-free scenarios with schedules that favour the refused-promotion ending (a node's final try-submit-jobs runs while another process still holds the "
        "submitter role), so that the run goes idle incomplete and needs the documented recovery (try-submit-jobs or show-status -n); every recovery round must hand a "
        "batch to sbatch or complete; every promoted round that leaves a ready job unsubmitted must be justified by max-nodes from its own squeue replies; the completion "
        "flag is observed at most once per submission, after results.json, with all results present; non-trivial = run with >= 1 recovery round, or >= 3 rounds from >= 2 hosts"
    )

    def gen(self, rng, i, tier):
        scen = scenario.gen_scenario(rng, max_jobs=10 if tier == "quick" else 14)
        if i % 2 == 0:
            scen["policy"]["kind"] = "sticky"
            scen["policy"]["sticky"] = rng.choice([0.9, 0.97])
            scen["policy"]["finish_w"] = 3.0
        if i % 3 == 0:
            scen["max_nodes"] = rng.choice([1, 2])
            for g in scen["groups"]:
                g["batch"] = rng.randint(1, 2)
        scen["user"] = {"try_submit": rng.choice([0, 0, 1]), "show_status": rng.choice([0, 1])}
        return scen

    def nontrivial(self, t, r):
        return (r.get("recoveries") or 0) >= 1 or ((r.get("rounds") or 0) >= 3 and len(r.get("round_hosts") or []) >= 2)

    def counters(self, tasks, results):
        c = self.base_counters(tasks, results)
        ok = [r for r in results if not r.get("error")]
        c["runs_that_needed_recovery"] = sum(1 for r in ok if (r.get("recoveries") or 0) >= 1)
        c["rounds_checked_for_laziness"] = total(ok, "lazy_checked")
        c["rounds_that_left_ready_jobs"] = total(ok, "lazy_ready_seen")
        c["of_which_justified_by_max_nodes"] = total(ok, "lazy_justified")
        return c

    def floors(self, cov):
        if cov.get("runs_that_needed_recovery", 0) < 5:
            return "fewer than 5 runs needed the documented recovery"
        if cov.get("rounds_checked_for_laziness", 0) < 50:
            return "fewer than 50 rounds reached the lazy-round oracle"
        return SimSpec.floors(self, cov)


# ----------------------------------------------------------------------------------------------- C06
class C06(SimSpec):
    prop = "C06"
    n = {"quick": 320, "thorough": 4500}
    rule = (
        "max-nodes 1-3 with many small batches and processes-per-node 1-3 (or unset: the node's 3 CPUs); the adversary holds jobs open (low finish weight) and starts queued "
        "batches late so that both limits are reached; oracle: scheduler truth queued+running <= max-nodes after every sbatch, live job processes per node <= limit at every launch; "
        "non-trivial = run in which the batch limit or a node's process limit was actually reached"
    )

    def gen(self, rng, i, tier):
        scen = scenario.gen_scenario(rng, max_jobs=12 if tier == "quick" else 16, min_jobs=4, shapes=["random", "random", "fanout", "two"])
        scen["max_nodes"] = rng.choice([1, 2, 3])
        for j in scen["jobs"]:
            if rng.random() < 0.6:
                j["blocked_by"] = []
        for g in scen["groups"]:
            g["batch"] = rng.randint(1, 4)
            if rng.random() < 0.75:
                g["time_based"] = False
        scen["policy"]["finish_w"] = rng.choice([0.02, 0.05, 0.2])
        scen["policy"]["start_w"] = rng.choice([0.05, 0.2, 1.0])
        scen["user"]["try_submit"] = rng.choice([0, 1, 2, 3])
        if i % 8 == 7:
            scen["mode"] = "local"
            scen["groups"] = scen["groups"][:1]
            scen["groups"][0]["time_based"] = False
            scen["groups"][0]["procs_opt"] = rng.choice([1, 2, 3])
            scen["groups"][0]["procs"] = scen["groups"][0]["procs_opt"]
            for j in scen["jobs"]:
                j["group"] = scen["groups"][0]["name"]
            scen["user"] = {}
        return scen

    @staticmethod
    def reached(t, r):
        s = t["args"]["scen"]
        node_lim = min((g["procs_opt"] or 3) for g in s["groups"])
        a = s.get("mode") != "local" and s["max_nodes"] and (r.get("max_active") or 0) >= s["max_nodes"]
        b = (r.get("max_live") or 0) >= node_lim
        return bool(a), bool(b)

    def nontrivial(self, t, r):
        a, b = self.reached(t, r)
        return a or b

    def counters(self, tasks, results):
        c = self.base_counters(tasks, results)
        ra = rb = 0
        for t, r in zip(tasks, results):
            if r.get("error"):
                continue
            a, b = self.reached(t, r)
            ra += a
            rb += b
        c["runs_reaching_max_nodes"] = ra
        c["runs_reaching_a_node_process_limit"] = rb
        c["max_active_batches_seen"] = hist(r.get("max_active") for r in results if not r.get("error"))
        c["max_live_processes_seen"] = hist(r.get("max_live") for r in results if not r.get("error"))
        return c

    def floors(self, cov):
        if cov.get("runs_reaching_max_nodes", 0) < 10:
            return "the max-nodes limit was reached in fewer than 10 runs"
        if cov.get("runs_reaching_a_node_process_limit", 0) < 10:
            return "a node process limit was reached in fewer than 10 runs"
        return SimSpec.floors(self, cov)


# ----------------------------------------------------------------------------------------------- C09
class C09(SimSpec):
    prop = "C09"
    n = {"quick": 360, "thorough": 5000}
    rule = (
        "fault-free submissions with extra user rounds, a share with cancel-jobs and a share followed by resubmit-jobs; the driver reads the status through the public API "
        "(Cluster.deserialize + get_status_summary) after every release of the cluster lock and at idle instants, and inside resubmit-jobs/cancel-jobs before each file mutation; "
        "invariants at every observation, monotonicity between consecutive observations of one (re)submission; non-trivial = run with >= 20 observations whose updates mixed "
        "submissions and completions (>= 2 batches)"
    )

    def gen(self, rng, i, tier):
        scen = scenario.gen_scenario(rng, max_jobs=10 if tier == "quick" else 14)
        scen["user"] = {"try_submit": rng.choice([0, 1, 2]), "show_status": rng.choice([0, 1, 2])}
        scen["obs_inside"] = True
        if i % 5 == 1:
            scen["cancel"] = rng.choice([0.003, 0.01, 0.03])
        return scen

    def nontrivial(self, t, r):
        return (r.get("obs") or 0) >= 20 and (r.get("sbatches") or 0) >= 2

    def counters(self, tasks, results):
        c = self.base_counters(tasks, results)
        ok = [r for r in results if not r.get("error")]
        c["observations_per_run"] = hist(min(200, 20 * ((r.get("obs") or 0) // 20)) for r in ok)
        c["unreadable_instants"] = total(ok, "obs_unreadable")
        c["runs_with_cancel"] = sum(1 for r in ok if r.get("canceled"))
        return c

    def floors(self, cov):
        if cov.get("lock_free_status_observations", 0) < 2000:
            return "fewer than 2000 lock-free observations"
        return SimSpec.floors(self, cov)


SPECS = {c.prop: c for c in (C01, C02, C03, C04, C05, C06, C09)}
