"""Campaign infrastructure: scratch context (command shims, fork servers, registry), long-lived worker
processes, per-task wall-clock watchdog (a watchdog hit is *inconclusive*, never a violation)."""
import json
import os
import queue
import select
import shutil
import signal
import subprocess
import sys
import tempfile
import threading
import time

HARNESS = os.path.dirname(os.path.dirname(os.path.abspath(__file__)))
VERIF = os.path.dirname(HARNESS)
REPO = os.environ.get("VERIF_REPO", "/repo")
PY = "/venv/bin/python"
DEPS = os.path.join(VERIF, ".deps")


def ensure_deps():
    """icontract / jsonschema beside the repository's interpreter, installed offline from the wheelhouse."""
    need = []
    for mod in ("jsonschema", "icontract"):
        if not os.path.isdir(os.path.join(DEPS, mod)):
            need.append(mod)
    if need:
        os.makedirs(DEPS, exist_ok=True)
        subprocess.run(
            [PY, "-m", "pip", "install", "-q", "--no-index", "--find-links", "/opt/veriftools/wheels", "--target", DEPS, "jsonschema", "icontract"],
            check=False,
            stdout=subprocess.DEVNULL,
            stderr=subprocess.DEVNULL,
        )


class Context:
    """Everything a campaign needs on disk; created at the start of a check, removed at its end."""

    def __init__(self, zygote=True, hashseeds=("0", "1")):
        tmp = os.environ.get("VERIF_TMP")
        if not tmp:
            tmp = "/dev/shm" if os.path.isdir("/dev/shm") and os.access("/dev/shm", os.W_OK) else tempfile.gettempdir()
        self.base = tempfile.mkdtemp(prefix="jadeverif.", dir=tmp)
        self.bin = os.path.join(self.base, "bin")
        os.makedirs(self.bin)
        src = os.path.join(HARNESS, "bin")
        for name in ("sbatch", "squeue", "scancel", "probe", "hookprobe", "recprobe", "flaky"):
            shutil.copy(os.path.join(src, "vsim_rpc.py"), os.path.join(self.bin, name))
        for name in ("jade", "jade-internal", "vpy"):
            shutil.copy(os.path.join(src, "zshim.py"), os.path.join(self.bin, name))
        shutil.copy(os.path.join(src, "srun"), os.path.join(self.bin, "srun"))
        for f in os.listdir(self.bin):
            os.chmod(os.path.join(self.bin, f), 0o755)
        self.registry = os.path.join(self.base, "registry.json")
        env = dict(os.environ, JADE_REGISTRY=self.registry, PYTHONPATH=REPO, PYTHONDONTWRITEBYTECODE="1")
        subprocess.run([PY, "-c", "from jade.extensions.registry import Registry; Registry()"], env=env, check=True, stdout=subprocess.DEVNULL, stderr=subprocess.DEVNULL)
        self.zsocks = {}
        self.zprocs = []
        if zygote:
            for hs in hashseeds:
                sock = os.path.join(self.base, f"z{hs}.sock")
                zenv = dict(
                    os.environ,
                    VSIM_SOCK="x",
                    VSIM_ZYGOTE="1",
                    OPENBLAS_NUM_THREADS="1",
                    OMP_NUM_THREADS="1",
                    MKL_NUM_THREADS="1",
                    NUMEXPR_NUM_THREADS="1",
                    PYTHONPATH=f"{HARNESS}/agent:{REPO}:{DEPS}",
                    PYTHONHASHSEED=hs,
                    JADE_REGISTRY=self.registry,
                    HOME=self.base,
                    PYTHONDONTWRITEBYTECODE="1",
                )
                log = open(os.path.join(self.base, f"zygote{hs}.log"), "w")
                p = subprocess.Popen([PY, os.path.join(HARNESS, "sim", "zygote.py"), sock], env=zenv, stdout=log, stderr=subprocess.STDOUT, stdin=subprocess.DEVNULL, start_new_session=True, cwd=self.base)
                self.zprocs.append((p, hs, sock, log))
            deadline = time.time() + 60
            for p, hs, sock, log in self.zprocs:
                while time.time() < deadline:
                    try:
                        if "zygote ready" in open(os.path.join(self.base, f"zygote{hs}.log")).read():
                            self.zsocks[hs] = sock
                            break
                    except OSError:
                        pass
                    if p.poll() is not None:
                        break
                    time.sleep(0.05)
                if hs not in self.zsocks:
                    txt = open(os.path.join(self.base, f"zygote{hs}.log")).read()
                    self.close()
                    raise RuntimeError(f"fork server {hs} failed to start (does jade import from {REPO}?):\n{txt[-2000:]}")

    def as_dict(self):
        return {"base": self.base, "bin": self.bin, "registry": self.registry, "zsocks": self.zsocks, "zpids": [p.pid for p, _h, _s, _l in self.zprocs]}

    def close(self):
        for p, hs, sock, log in self.zprocs:
            try:
                os.killpg(p.pid, 9)
            except Exception:
                pass
            try:
                p.wait(timeout=5)
            except Exception:
                pass
            log.close()
        shutil.rmtree(self.base, ignore_errors=True)

    def __enter__(self):
        return self

    def __exit__(self, *a):
        self.close()


class Worker:
    def __init__(self, ctx, idx):
        self.ctx = ctx
        self.idx = idx
        self.start()

    def start(self):
        env = dict(os.environ, PYTHONPATH=f"{HARNESS}:{REPO}:{DEPS}", VERIF_CTX=json.dumps(self.ctx.as_dict()), VERIF_WORKER=str(self.idx), PYTHONDONTWRITEBYTECODE="1",
                   JADE_REGISTRY=self.ctx.registry, OPENBLAS_NUM_THREADS="1", OMP_NUM_THREADS="1", MKL_NUM_THREADS="1", NUMEXPR_NUM_THREADS="1")
        env.pop("VSIM_SOCK", None)
        self.errlog = open(os.path.join(self.ctx.base, f"worker{self.idx}.err"), "a")
        self.p = subprocess.Popen([PY, "-m", "sim.worker"], env=env, stdin=subprocess.PIPE, stdout=subprocess.PIPE, stderr=self.errlog, cwd=self.ctx.base, start_new_session=True)

    def kill(self):
        try:
            os.killpg(self.p.pid, 9)
        except Exception:
            pass
        try:
            self.p.wait(timeout=5)
        except Exception:
            pass
        # children of the killed worker's scenario: their driver socket is gone, they exit on their own;
        # make sure by killing everything whose cwd is under this worker's scratch directory.
        wdir = os.path.join(self.ctx.base, f"w{self.idx}")
        for pid in os.listdir("/proc"):
            if pid.isdigit():
                try:
                    cwd = os.readlink(f"/proc/{pid}/cwd")
                    if cwd == wdir or cwd.startswith(wdir + "/"):
                        os.kill(int(pid), 9)
                except OSError:
                    pass
        shutil.rmtree(wdir, ignore_errors=True)
        self.errlog.close()

    def run(self, task, timeout):
        try:
            self.p.stdin.write((json.dumps(task) + "\n").encode())
            self.p.stdin.flush()
        except (BrokenPipeError, OSError):
            self.kill()
            self.start()
            return {"error": "inconclusive: worker died before the task", "violations": []}
        buf = b""
        deadline = time.time() + timeout
        fd = self.p.stdout.fileno()
        while True:
            left = deadline - time.time()
            if left <= 0:
                self.kill()
                self.start()
                return {"error": f"inconclusive: wall-clock watchdog {timeout}s", "violations": []}
            r, _, _ = select.select([fd], [], [], min(left, 1.0))
            if r:
                chunk = os.read(fd, 1 << 20)
                if not chunk:
                    tail = ""
                    try:
                        tail = open(os.path.join(self.ctx.base, f"worker{self.idx}.err")).read()[-600:]
                    except OSError:
                        pass
                    self.kill()
                    self.start()
                    return {"error": "inconclusive: worker died: " + tail, "violations": []}
                buf += chunk
                if buf.endswith(b"\n"):
                    line = buf.strip().splitlines()[-1]
                    try:
                        return json.loads(line)
                    except ValueError:
                        buf = b""


def run_tasks(ctx, tasks, nworkers=None, timeout=180, progress=None):
    """Run tasks (dicts with 'fn' and 'args') on a pool of workers; returns results in task order."""
    nworkers = nworkers or int(os.environ.get("VERIF_WORKERS", "14"))
    nworkers = max(1, min(nworkers, len(tasks)))
    q = queue.Queue()
    for i, t in enumerate(tasks):
        q.put((i, t))
    results = [None] * len(tasks)
    done = [0]
    lock = threading.Lock()

    def loop(idx):
        w = Worker(ctx, idx)
        try:
            while True:
                try:
                    i, t = q.get_nowait()
                except queue.Empty:
                    return
                res = w.run(t, t.get("timeout", timeout))
                results[i] = res
                with lock:
                    done[0] += 1
                    if progress:
                        progress(done[0], len(tasks), res)
        finally:
            try:
                w.p.stdin.close()
            except Exception:
                pass
            w.kill()

    threads = [threading.Thread(target=loop, args=(k,), daemon=True) for k in range(nworkers)]
    for t in threads:
        t.start()
    for t in threads:
        t.join()
    return results
