"""C07 oracle over one batch as handed to the HPC (or written for it in dry-run mode).

Input is what is on disk at the instant of the `sbatch` call: the submission script, the run script
it points to, and the batch configuration the run script points to.  The expectation is derived
from the *scenario* (group parameters as generated), never from JADE's own objects.
"""
import json
import os
import re


def slurm_minutes(spec):
    """What the scheduler understands by a --time value (sbatch(1): "minutes", "minutes:seconds", "hours:minutes:seconds",
    "days-hours", "days-hours:minutes", "days-hours:minutes:seconds"), in minutes.  Independent of JADE's own parser."""
    spec = str(spec).strip()
    if "-" in spec:
        d, rest = spec.split("-", 1)
        f = [int(x) for x in rest.split(":")] + [0, 0]
        return int(d) * 1440 + f[0] * 60 + f[1] + f[2] / 60.0
    f = [int(x) for x in spec.split(":")]
    if len(f) == 1:
        return float(f[0])
    if len(f) == 2:
        return f[0] + f[1] / 60.0
    return f[0] * 60 + f[1] + f[2] / 60.0


WALLTIME_SPELLINGS = {
    # canonical and equivalent spellings of "m minutes" that JADE's parser (h:m:s somewhere in the string) also understands
    "hms": lambda m: f"0:{m:02d}:00",
    "hhms": lambda m: f"00:{m:02d}:00",
    "dhms": lambda m: f"0-00:{m:02d}:00",
    "h_m_s": lambda m: f"0:{m}:0",
    # spellings the scheduler accepts and JADE (unchanged) refuses up front
    "ms": lambda m: f"{m}:00",
    "m": lambda m: f"{m}",
}
REFUSED_SPELLINGS = ("ms", "m")


def read_batch(root, script):
    """script: path of the sbatch script (relative to root or absolute)."""
    p = script if os.path.isabs(script) else os.path.join(root, script)
    txt = open(p).read()
    m = re.search(r"^srun (\S+)", txt, re.M)
    if not m:
        return None, None, txt, None, None
    runp = m.group(1)
    rp = runp if os.path.isabs(runp) else os.path.join(root, runp)
    run = open(rp).read()
    m2 = re.search(r"run-jobs (\S+)", run)
    cfgp = m2.group(1)
    cp = cfgp if os.path.isabs(cfgp) else os.path.join(root, cfgp)
    cfg = json.load(open(cp))
    for j in cfg["jobs"]:
        if j.get("name") is None and j.get("job_id") is not None:
            j["name"] = str(j["job_id"])  # unnamed job: JADE's name for it is str(job_id)
    return [j["name"] for j in cfg["jobs"]], cfg, txt, run, cfgp


def sbatch_params(txt):
    out = {}
    for line in txt.splitlines():
        m = re.match(r"#SBATCH --([a-z_\-]+)=(.*)$", line)
        if m:
            out.setdefault(m.group(1).replace("_", "-"), []).append(m.group(2))
    return out


def expected_sbatch(group, jobname, out_dir):
    exp = {
        "account": [group["account"]],
        "job-name": [jobname],
        "time": [group["walltime"]],
        "output": [f"{out_dir}/job_output_%j.o"],
        "error": [f"{out_dir}/job_output_%j.e"],
    }
    opts = group.get("slurm_opts") or {}
    for k, v in opts.items():
        exp[k.replace("_", "-")] = [str(v)]
    if not any(k in opts for k in ("nodes", "ntasks", "ntasks_per_node")):
        exp["nodes"] = ["1"]  # documented default when neither nodes nor tasks are given
    return exp


def check_batch(scen_jobs, groups, names, cfg, txt, run, script, out_dir, finished, viol):
    """viol(key, text) is called for every clause that fails.

    scen_jobs: {name: scenario job}; groups: {name: scenario group}; finished: set of job names
    that have a recorded outcome on disk at this instant (None = unknown: skip the blocked rule).
    """
    if names is None:
        viol("script-without-srun", f"{script}: no srun line")
        return None
    if not names:
        viol("empty-batch", f"{script}: batch without jobs")
        return None
    unknown = [n for n in names if n not in scen_jobs]
    if unknown:
        viol("unknown-job", f"{script}: jobs {unknown} are not in the configuration")
        return None
    if len(set(names)) != len(names):
        viol("job-twice-in-batch", f"{script}: {names}")
    gset = {scen_jobs[n]["group"] for n in names}
    if len(gset) != 1:
        viol("mixed-groups", f"{script}: jobs {names} belong to groups {sorted(gset)}")
        return None
    g = groups[gset.pop()]
    if g["time_based"]:
        tot = sum(scen_jobs[n]["est"] for n in names)
        cap = slurm_minutes(g["walltime"]) * g["procs"]  # the limit the scheduler will enforce for the --time that was written
        if tot > cap:
            viol("time-limit", f"{script}: estimated minutes {tot} > walltime ({g['walltime']}) x processes = {cap} ({names})")
    else:
        if len(names) > g["batch"]:
            viol("size-limit", f"{script}: {len(names)} jobs > per-node batch size {g['batch']} ({names})")
    # HPC parameters of that group
    m = re.search(r"_batch_(\d+)\.sh$", script)
    idx = m.group(1) if m else "?"
    jobname = f"{g['prefix']}_batch_{idx}"
    got = sbatch_params(txt)
    exp = expected_sbatch(g, jobname, out_dir)
    if got != exp:
        viol("hpc-params", f"{script}: #SBATCH {got} != expected {exp}")
    lines = [l for l in txt.splitlines() if l.strip()]
    if not lines or not re.match(rf"srun {re.escape(out_dir)}/run_batch_{idx}\.sh$", lines[-1]):
        viol("script-last-line", f"{script}: last line {lines[-1] if lines else None!r}")
    # run options
    rl = [l for l in run.splitlines() if "run-jobs" in l]
    if len(rl) != 1:
        viol("run-script", f"{script}: run script has {len(rl)} run-jobs lines")
    else:
        toks = rl[0].split()
        want = ["jade-internal", "run-jobs", f"{out_dir}/config_batch_{idx}.json", f"--output={out_dir}"]
        want.append("--distributed-submitter" if g.get("dsub", True) else "--no-distributed-submitter")
        if g.get("procs_opt") is not None:
            want.append(f"--num-parallel-processes-per-node={g['procs_opt']}")
        if g.get("verbose"):
            want.append("--verbose")
        if toks != want:
            viol("run-options", f"{script}: run line {toks} != expected {want}")
    # blocked rule
    byname = {j["name"]: j for j in cfg["jobs"]}
    for n in names:
        listed = set(str(b) for b in byname[n].get("blocked_by", []))
        if not listed <= set(names):
            viol("listed-blocker-outside-batch", f"{script}: {n} handed over with blockers {sorted(listed)} not all in batch {names}")
        if finished is not None:
            unfinished = {b for b in scen_jobs[n]["blocked_by"] if b not in finished}
            if unfinished:
                if not g["try_add"]:
                    viol("blocked-without-try-add", f"{script}: {n} has unfinished blockers {sorted(unfinished)} but try-add-blocked is off")
                elif not unfinished <= set(names):
                    viol("blocker-outside-batch", f"{script}: {n} has unfinished blockers {sorted(unfinished)} outside its batch {names}")
    return g
