"""Deterministic process scheduler + trace recorder + fault injector + system-level oracles.

One Sim runs one scenario: real JADE CLI processes (through the fork server), simulated SLURM commands
and job probes are *actors*; each blocks at its scheduling points until this driver lets it proceed, so
at most one simulated process executes between two decisions and the trace is a total order.
"""
import csv
import glob
import hashlib
import json
import os
import random
import re
import selectors
import shutil
import signal
import socket
import subprocess
import sys
import time

from . import model
from . import oracle_batch

HARNESS = os.path.dirname(os.path.dirname(os.path.abspath(__file__)))
REPO = os.environ.get("VERIF_REPO", "/repo")

SHARED = re.compile(
    r"(cluster_config\.json|job_status\.json|config_version\.txt|job_status_version\.txt|processed_results\.csv|"
    r"results_batch_\d+\.csv|submitter\.lock|results\.json|pipeline\.json)(\.lock|\.bk)?$"
)
O_CREAT = os.O_CREAT
O_EXCL = os.O_EXCL
O_WRONLY = os.O_WRONLY
O_RDWR = os.O_RDWR
O_APPEND = os.O_APPEND


def is_write_open(msg):
    if msg.get("ev") != "open":
        return False
    m = msg.get("m")
    if isinstance(m, str):
        return any(c in m for c in "wax+")
    f = msg.get("f") or 0
    return bool(f & (O_WRONLY | O_RDWR | O_CREAT))


def is_trunc_open(msg):
    """An open that empties the file before the first write ('w' modes, O_TRUNC): a process dying right after it leaves an empty
    or partial file behind (torn write).  An append can only lose its own tail, never what was already in the file."""
    if msg.get("ev") != "open":
        return False
    m = msg.get("m")
    if isinstance(m, str):
        return "w" in m
    return bool((msg.get("f") or 0) & os.O_TRUNC) and not bool((msg.get("f") or 0) & O_EXCL)


def is_lock_acquire(msg):
    return msg.get("ev") == "open" and msg.get("p", "").endswith(".lock") and bool((msg.get("f") or 0) & O_EXCL)


class Actor:
    __slots__ = ("conn", "pid", "state", "msg", "info", "blocked_on", "wake", "spawn_pid", "role", "node", "host", "top", "n", "prio", "cmd", "argv", "parked_until", "parked_at", "idx")

    def __init__(self, conn):
        self.conn = conn
        self.pid = None
        self.state = "new"
        self.msg = None
        self.info = {}
        self.blocked_on = None
        self.wake = None
        self.spawn_pid = None
        self.role = None
        self.node = None
        self.host = None
        self.top = None
        self.n = 0
        self.prio = 0.0
        self.cmd = ""
        self.argv = []
        self.parked_until = 0
        self.parked_at = -1
        self.idx = 0


def ancestors(pid):
    out = []
    while pid and pid > 1:
        try:
            with open(f"/proc/{pid}/stat") as f:
                s = f.read()
            pid = int(s[s.rfind(")") + 2 :].split()[1])
        except (OSError, ValueError):
            break
        out.append(pid)
    return out


class Inconclusive(Exception):
    pass


class Sim:
    def __init__(self, root, scen, seed, ctx, verbose=False):
        """ctx: {"bin": dir with command shims, "zsocks": {hashseed: path}, "registry": path}"""
        self.root = root
        self.scen = scen
        self.seed = seed
        self.rng = random.Random(seed)
        self.verbose = verbose
        self.outname = scen.get("outname", "out")
        self.out = os.path.join(root, self.outname)
        self.sock_path = os.path.join(root, "v.sock")
        self.srv = socket.socket(socket.AF_UNIX, socket.SOCK_SEQPACKET)
        self.srv.bind(self.sock_path)
        self.srv.listen(128)
        self.sel = selectors.DefaultSelector()
        self.sel.register(self.srv, selectors.EVENT_READ, None)
        self.actors = {}
        self.pending = {}
        self.trace = []
        self.choices = []
        self.live_lock_breaks = 0
        self.zpids = set(ctx.get("zpids") or []) if isinstance(ctx, dict) else set()
        self.hold_off = False
        self.job_events_written = []
        self.job_events_pending = {}
        self.outage_freeze = False
        self.outage_fails = {}
        self.finish_step = {}
        self.vnow = 0.0
        self.steps = 0
        self.switches = 0
        self.last_actor = None
        self.next_id = 100
        self.batches = {}
        self.tops = {}
        self.top_seen = set()
        self.top_rc = {}
        self.top_promoted = set()
        self.violations = []
        self.notes = []
        self.sig = hashlib.sha1()
        self.nshared = 0
        self.sig_items = []
        self.nactors = 0
        self.last_progress_step = 0
        self.jobs = {j["name"]: j for j in scen["jobs"]}
        self.groups = {g["name"]: g for g in scen["groups"]}
        self.epoch = 0
        self.epoch_transition = False
        self.attempt = {}  # job -> attempt number used for its exit code
        # boundary records
        self.launches = {}  # job -> [ {node, step, epoch, argv, env} ]
        self.finished = {}  # job -> [(rc, epoch)]
        self.running_jobs = {}  # pid -> (job, node)
        self.killed_jobs = set()
        self.sbatches = []
        self.batch_cfg_writes = {}  # basename -> count of create/overwrite opens
        self.squeues = 0
        self.scancelled = set()
        self.hooks_seen = []
        self.obs = []
        self.obs_skipped = 0
        self.obs_unreadable = 0
        self.want_obs = None
        self.recoveries = 0
        self.refused_recoveries = 0
        self.recover_check = None
        self.complete_seen = 0
        self.complete_epochs = {}
        self.results_json_writes = []
        self.max_live = {}
        self.max_active = 0
        self.rows_ever = {}
        self.rounds = {}
        self.round_ended = []
        self.round_hosts = set()
        self.promoted_rounds = 0
        self.refused_rounds = 0
        self.lazy_checked = 0
        self.lazy_ready_seen = 0
        self.lazy_justified = 0
        self.cancel_started = None
        self.resub_after_cancel = 0
        self.window_resub = False
        self.ev_snap_by_pid = {}
        self.ev_consolidators = set()
        self.ev_consolidation_snapshot = None
        self.srh = None
        self.srh_seen = set()
        self.srh_released = False
        self.srh_jump0 = 0
        self.prompted_recoveries = 0
        self.park_pid = None
        self.after_resub_try = 0
        self.cancel_cmd_step = None
        self.cancel_ids_at_promotion = None
        self.cancel_pid = None
        self.rows_at_cancel = None
        self.canceled_visible_step = None
        self.holder = None  # (pid, host) of the process that the observations say holds the submitter role
        self.faults_injected = []
        self.status_faults = []
        self.frozen_finishes = False
        self.early_resub = None
        self.idle_resub_done = False
        self.fault_budget = (scen.get("faults") or {}).get("node_kill", 0)
        self.sub_ord = {}
        self.sub_steps = {}
        self.sub_classes = {}
        self.run_ord = {}
        self.run_steps = {}
        self.run_classes = {}
        self.crash_done = False
        self.sq_budget = (scen.get("faults") or {}).get("squeue_fail_budget", 10**9)
        self.cc_pid = None
        self.cc_steps = 0
        self.cmd_classes = []
        self.killnode_done = False
        self.poll_streak = 0
        self.hold_advance = 0.0
        self.time_jumps = 0
        self.parks = 0
        self.eg = {"phase": 1, "k": scen.get("endgame_k") or self.rng.randint(1, 10), "count": 0} if scen.get("endgame") else None
        self.inner_evals = {}
        self.inner_failures = []
        self.pct_points = set()
        self.user_done = {"try_submit": 0, "show_status": 0}
        self.stuck = False
        self.resub = None
        self.unlock_by = None
        self.node_hook_seen = {}
        self.ff = not (scen.get("faults") or {})
        pol = scen.get("policy") or {}
        if pol.get("kind") == "pct":
            for _ in range(pol.get("pct_d", 2)):
                self.pct_points.add(self.rng.randint(5, 1500))
        hs = str(scen.get("hashseed", 0))
        zsock = (ctx.get("zsocks") or {}).get(hs) or ""
        if scen.get("no_zygote"):
            zsock = ""
        self.env = dict(os.environ)
        self.env.update(
            VSIM_SOCK=self.sock_path,
            VSIM_ROOT=root,
            PYTHONPATH=f"{HARNESS}/agent:{REPO}",
            PATH=f"{ctx['bin']}:" + os.environ["PATH"],
            HOME=os.path.join(root, "home"),
            PYTHONHASHSEED=hs,
            VSIM_ZSOCK=zsock,
            VSIM_FILELOCK=scen.get("filelock", ""),
            VSIM_JOB_EVENTS=("2" if scen.get("job_events") == 2 else "1") if scen.get("job_events") else "",
            JADE_REGISTRY=ctx["registry"],
            OPENBLAS_NUM_THREADS="1",
            OMP_NUM_THREADS="1",
            MKL_NUM_THREADS="1",
            NUMEXPR_NUM_THREADS="1",
            PYTHONDONTWRITEBYTECODE="1",
        )
        self.env.pop("VSIM_ZYGOTE", None)
        for k in ("JADE_JOB_NAME", "JADE_RUNTIME_OUTPUT", "JADE_SUBMISSION_GROUP"):
            self.env.pop(k, None)
        if scen.get("inherit_env"):
            # the submission is itself started from inside a JADE job (nested use, pipelines): every process of it - the
            # user's commands and, as sbatch exports the caller's environment, the batches - inherits the outer job's variables
            self.env.update(JADE_JOB_NAME="outer-job", JADE_RUNTIME_OUTPUT="/elsewhere/outer-output", JADE_SUBMISSION_GROUP="outer-group")
        os.makedirs(self.env["HOME"], exist_ok=True)
        self.t0 = time.time()
        self.wall_limit = scen.get("wall_limit", 120)

    # ------------------------------------------------------------------ plumbing
    def log(self, *a):
        self.trace.append((self.steps,) + a)
        if self.verbose:
            print(self.steps, *a, flush=True)

    C11_MAP = {("C01", "double-placement"): "job-handed-to-hpc-twice", ("C15", "stage-submitted-twice"): "stage-handed-to-hpc-twice", ("C01", "job-started-twice"): "job-started-twice", ("C02", "started-before-blocker"): "started-before-blocker"}

    def viol(self, prop, key, text):
        if self.scen.get("c11") and (prop, key) in self.C11_MAP and self.faults_injected:
            key = self.C11_MAP[(prop, key)]
            prop = "C11"
            text = f"after fault {self.faults_injected[0]}: {text}"
        self.violations.append({"prop": prop, "key": key, "text": text, "step": self.steps, "epoch": self.epoch})
        self.log("VIOLATION", prop, key, text)

    def note(self, text):
        self.notes.append(text)
        self.log("NOTE", text)

    def spawn_top(self, tag, argv, host, extra_env=None, agent=True, stdin_text=None):
        env = dict(self.env, VSIM_HOST=host, VSIM_TAG=tag)
        if extra_env:
            env.update(extra_env)
        lf = open(os.path.join(self.root, f"top_{tag}.log"), "w")
        sin = subprocess.DEVNULL
        if stdin_text is not None:  # what the user types at the command's prompts
            with open(os.path.join(self.root, f"stdin_{tag}.txt"), "w") as f:
                f.write(stdin_text)
            sin = open(os.path.join(self.root, f"stdin_{tag}.txt"))
        p = subprocess.Popen(argv, env=env, cwd=self.root, stdout=lf, stderr=subprocess.STDOUT, stdin=sin, start_new_session=True)
        if sin is not subprocess.DEVNULL:
            sin.close()
        lf.close()
        self.tops[tag] = p
        self.pending[p.pid] = tag
        self.log("TOP", tag, " ".join(argv), host)
        return p

    def handle(self, a, msg):
        k = msg["k"]
        if msg.get("nb"):
            if k == "spawned":
                c = msg["child"]
                known = False
                for b in self.actors.values():
                    if b.pid and c in (b.pid, b.info.get("via"), b.info.get("ppid")):
                        known = True
                        if c in (b.pid, b.info.get("via")) and b.spawn_pid is None:
                            b.spawn_pid = c
                if not known:
                    self.pending[c] = ("child", a.pid)
            elif k == "wait":
                a.state = "blocked"
                a.blocked_on = msg["child"]
            elif k == "contract":
                self.inner_evals[msg["name"]] = self.inner_evals.get(msg["name"], 0) + 1
                if not msg.get("ok"):
                    self.inner_failures.append((msg["name"], msg.get("detail"), a.host, self.steps))
                    self.log("INNER_MONITOR_FAILED", msg["name"], msg.get("detail"), a.host)
            return
        if k == "hello":
            a.pid = msg["pid"]
            a.info = msg
            a.role = msg["role"]
            a.node = msg.get("node")
            a.host = msg.get("host")
            a.top = msg.get("tag")
            a.argv = msg.get("argv") or []
            a.cmd = " ".join(a.argv)
            a.prio = self.rng.random() if (self.scen.get("policy") or {}).get("kind") != "det" else 0.0
            a.idx = self.nactors
            self.nactors += 1
            chain = [a.pid, msg.get("via"), msg.get("ppid")] + ancestors(a.pid)
            if msg.get("via"):
                chain += ancestors(msg["via"])
            for c in chain:
                if c in self.pending:
                    a.spawn_pid = c
                    self.pending.pop(c)
                    break
            if a.top:
                self.top_seen.add(a.top)
        a.state = "waiting"
        a.msg = msg
        a.wake = self.vnow + msg["d"] if k == "sleep" else None
        if k == "waited":
            self.pending.pop(msg["child"], None)

    def wait_zombie(self, pid, limit=3.0):
        """The socket EOF of an exiting process can reach the driver a moment before the process is reapable, and liveness
        tests of others (waitpid(WNOHANG) of a polling parent, kill(pid, 0) of filelock's stale-lock test) would then depend
        on real time.  Wait until it is a zombie (its parent reaps at a scheduling point of its own), or - when the parent
        reaps asynchronously (the fork server itself, init) - until it is gone."""
        t = time.time() + limit
        zp = self.zpids
        while time.time() < t:
            try:
                with open(f"/proc/{pid}/stat") as f:
                    st = f.read()
                rest = st[st.rfind(")") + 2:].split()
                if rest[0] in "ZX":
                    ppid = int(rest[1])
                    if ppid not in zp and ppid != 1:
                        return
                    if ppid == 1:
                        limit1 = getattr(self, "_orphan_wait", 0.2)
                        if time.time() > t - limit + limit1:
                            return  # init does not reap here: do not wait for it
            except (OSError, IndexError, ValueError):
                return
            time.sleep(0.0005)

    def on_close(self, a):
        _skip = os.environ.get("VSIM_NO_WAIT_ZOMBIE")
        a.state = "dead"
        if self.outage_freeze and a.pid in self.outage_fails:
            self.outage_freeze = False
        if a.pid and not _skip:
            self.wait_zombie(a.pid)
        if a.pid in self.rounds:
            self.round_ended.append(a.pid)
        try:
            self.sel.unregister(a.conn)
        except Exception:
            pass
        a.conn.close()
        self.actors.pop(a.conn, None)
        self.running_jobs.pop(a.pid, None)
        for b in self.actors.values():
            if b.state == "blocked" and b.blocked_on in (a.pid, a.spawn_pid, a.info.get("via")):
                b.state = "running"

    def pump(self, timeout):
        evs = self.sel.select(timeout=timeout)
        for key, _ in evs:
            if key.data is None:
                conn, _x = self.srv.accept()
                a = Actor(conn)
                self.actors[conn] = a
                self.sel.register(conn, selectors.EVENT_READ, a)
            else:
                a = key.data
                try:
                    data = a.conn.recv(1 << 17)
                except OSError:
                    data = b""
                if not data:
                    self.on_close(a)
                else:
                    self.handle(a, json.loads(data))
        return bool(evs)

    def quiescent(self):
        if self.pending:
            for pid, tag in list(self.pending.items()):
                if not isinstance(tag, tuple):
                    p = self.tops.get(tag) if not isinstance(tag, int) else self.batches[tag]["proc"]
                    if p is not None and p.poll() is not None:
                        self.pending.pop(pid)
                        if not isinstance(tag, int):
                            self.top_seen.add(tag)
                else:
                    # child announced by a parent that has died in the meantime and that never became an actor
                    if not os.path.exists(f"/proc/{pid}") and not any(b.pid == tag[1] for b in self.actors.values()):
                        self.pending.pop(pid)
            if self.pending:
                return False
        for a in self.actors.values():
            if a.state in ("new", "running"):
                return False
            if a.state == "blocked":
                tgt = a.blocked_on
                if not any(b is not a and tgt in (b.pid, b.spawn_pid, b.info.get("via")) for b in self.actors.values()):
                    return False
        return True

    def settle(self):
        deadline = time.time() + 30
        while True:
            self.pump(0)
            if self.quiescent():
                again = False
                for bid, b in self.batches.items():
                    if b["state"] == "RUNNING" and b["seen"] and not any(a.node == str(bid) for a in self.actors.values()):
                        try:
                            b["proc"].wait(timeout=10)
                        except subprocess.TimeoutExpired:
                            raise Inconclusive(f"batch {bid} wrapper did not exit")
                        b["state"] = "DONE"
                        self.log("BATCH_END", bid, b["proc"].returncode)
                        again = True
                    elif b["state"] == "RUNNING" and not b["seen"] and b["proc"].poll() is not None:
                        b["state"] = "DONE"
                        self.log("BATCH_END_EARLY", bid, b["proc"].returncode)
                        again = True
                for tag, p in list(self.tops.items()):
                    if tag in self.top_rc:
                        continue
                    if tag in self.top_seen and not any(a.top == tag for a in self.actors.values()):
                        try:
                            p.wait(timeout=10)
                        except subprocess.TimeoutExpired:
                            raise Inconclusive(f"top {tag} did not exit")
                        self.top_rc[tag] = p.returncode
                        self.log("TOP_END", tag, p.returncode)
                        again = True
                if not again:
                    return
                continue
            if time.time() > deadline:
                raise Inconclusive("settle timeout: " + str([(a.pid, a.role, a.state, a.blocked_on) for a in self.actors.values()]) + str(self.pending))
            self.pump(0.5)

    def reply(self, actor, **rep):
        rep.setdefault("a", "go")
        rep["off"] = self.vnow
        actor.state = "running"
        actor.msg = None
        actor.n += 1
        try:
            actor.conn.send(json.dumps(rep).encode())
        except OSError:
            pass

    def shared_event(self, a, what, obj):
        self.nshared += 1
        self.last_progress_step = self.steps
        self.sig.update(f"{a.host if a else '-'}|{what}|{obj};".encode())
        if self.scen.get("sig_list"):
            self.sig_items.append(f"{self.steps}:{a.host if a else '-'}|{what}|{obj}")

    # ------------------------------------------------------------------ results on disk
    def _rows_on_disk(self):
        """{name: [(rc, status, hpc_id, file)]}; unreadable files are reported in self.rows_unknown."""
        rows = {}
        self.rows_unknown = []
        files = glob.glob(os.path.join(glob.escape(self.out), "results", "results_batch_*.csv")) + [os.path.join(self.out, "processed_results.csv")]
        for f in files:
            try:
                with open(f, newline="") as fh:
                    txt = fh.read()
            except FileNotFoundError:
                continue
            lines = txt.splitlines()
            if not lines:
                continue
            if not lines[0].startswith("name,"):
                self.rows_unknown.append(os.path.basename(f))
                lines = ["name,return_code,status,exec_time_s,completion_time,hpc_job_id"] + lines
            for r in csv.DictReader(lines):
                try:
                    if r.get("name") is None or r.get("status") is None or r.get("hpc_job_id") is None:
                        self.rows_unknown.append(os.path.basename(f))
                        continue
                    rows.setdefault(r["name"], []).append((r["return_code"], r["status"], r["hpc_job_id"], os.path.basename(f), r["exec_time_s"], r["completion_time"]))
                except Exception:
                    self.rows_unknown.append(os.path.basename(f))
        return rows

    def rows_on_disk(self):
        rows = self._rows_on_disk()
        for k, v in rows.items():
            self.rows_ever.setdefault(k, set()).update((x[0], x[1], self.epoch) for x in v)
        return rows

    # ------------------------------------------------------------------ observation through the public API
    def observe(self, why):
        lock = os.path.join(self.out, "cluster_config.json.lock")
        if os.path.exists(lock) or not os.path.exists(os.path.join(self.out, "cluster_config.json")):
            self.obs_skipped += 1
            return None
        from jade.jobs.cluster import Cluster

        try:
            cluster, _ = Cluster.deserialize(self.outname, deserialize_jobs=True)
            summary = cluster.get_status_summary(include_jobs=True)
        except Exception as e:  # unreadable instant (files mid-creation)
            self.obs_unreadable += 1
            self.log("OBS_UNREADABLE", why, repr(e)[:100])
            try:
                os.remove(lock)  # JADE re-creates the marker on purpose after an exception; that was us, not an actor
            except OSError:
                pass
            return None
        c = cluster.config
        js = cluster.job_status
        o = {
            "why": why,
            "step": self.steps,
            "n": c.num_jobs,
            "sub": c.submitted_jobs,
            "comp": c.completed_jobs,
            "complete": c.is_complete,
            "canceled": c.is_canceled,
            "submitter": c.submitter,
            "cv": c.version,
            "jv": js.version,
            "ids": list(js.hpc_job_ids),
            "bi": js.batch_index,
            "jobs": {j.name: (j.state.value, sorted(j.blocked_by)) for j in js.jobs},
            "sum": {k: summary[k] for k in ("is_complete", "is_canceled", "num_jobs", "completed_jobs", "not_submitted_jobs")},
        }
        self.check_obs(o)
        self.obs.append(o)
        return o

    def check_obs(self, o):
        V = lambda key, text: self.viol("C09", key, text + f" [at {o['why']}]")
        st = [v[0] for v in o["jobs"].values()]
        nd = st.count("done")
        ns = st.count("submitted")
        judge_consistency = not self.status_faults
        if judge_consistency:
            if not (o["comp"] <= o["sub"] <= o["n"]):
                V("counter-order", f"completed={o['comp']} submitted={o['sub']} total={o['n']}")
            if o["comp"] != nd:
                V("completed-vs-done", f"completed={o['comp']} but {nd} jobs are marked done")
            if o["sub"] != nd + ns:
                V("submitted-vs-states", f"submitted={o['sub']} but {nd + ns} jobs are marked submitted or done")
            if o["sum"]["not_submitted_jobs"] != o["n"] - o["sub"] or o["sum"]["completed_jobs"] != o["comp"]:
                V("summary-mismatch", f"status summary {o['sum']} disagrees with counters")
            rows = self.rows_on_disk()
            for name, (s, bb) in o["jobs"].items():
                if s == "done" and name not in rows and not self.rows_unknown:
                    V("done-without-result", f"job {name} is done but has no recorded result")
                if s != "not_submitted" and bb:
                    V("blockers-after-submit", f"job {name} is {s} but blocked_by={bb}")
        if self.epoch_transition and o["why"].startswith("unlock") and not o["complete"]:
            # first release of the cluster lock after resubmit-jobs reset the state: the new (re)submission is in place
            self.epoch_transition = False
            self.epoch_started_at = len(self.obs)
        if self.obs:
            p = self.obs[-1]
            same_epoch = p.get("epoch", 0) == self.epoch and not self.epoch_transition and getattr(self, "epoch_started_at", 0) != len(self.obs)
            if same_epoch and judge_consistency:
                if o["sub"] < p["sub"] or o["comp"] < p["comp"]:
                    V("counter-decreased", f"{p['sub']}/{p['comp']} -> {o['sub']}/{o['comp']}")
                order = {"not_submitted": 0, "submitted": 1, "done": 2}
                for name, (s, bb) in o["jobs"].items():
                    ps, pbb = p["jobs"].get(name, (s, bb))
                    if order[s] < order[ps]:
                        V("state-went-back", f"{name}: {ps} -> {s}")
                    if not set(bb) <= set(pbb):
                        V("blockers-grew", f"{name}: {pbb} -> {bb}")
                if p["complete"] and not o["complete"]:
                    V("complete-went-back", "is_complete true -> false")
            if judge_consistency:
                if o["cv"] < p["cv"] or o["jv"] < p["jv"]:
                    V("version-decreased", f"config {p['cv']}->{o['cv']} jobs {p['jv']}->{o['jv']}")
                same_c = all(o[k] == p[k] for k in ("sub", "comp", "complete", "canceled", "submitter"))
                if not same_c and o["cv"] <= p["cv"]:
                    V("config-change-without-version", f"config changed, version {p['cv']}->{o['cv']}")
                same_j = o["jobs"] == p["jobs"] and o["ids"] == p["ids"] and o["bi"] == p["bi"]
                if not same_j and o["jv"] <= p["jv"]:
                    V("jobs-change-without-version", f"job status changed, version {p['jv']}->{o['jv']}")
            # C10, system form: the role moves None->host or host->None, never host->other host
            if p["submitter"] and o["submitter"] and p["submitter"] != o["submitter"]:
                self.viol("C10", "role-takeover", f"submitter changed {p['submitter']} -> {o['submitter']} without a release [at {o['why']}]")
        o["epoch"] = self.epoch
        # role bookkeeping: attribute the change to the process that just released the cluster lock
        prev_sub = self.obs[-1]["submitter"] if self.obs else None
        if o["submitter"] != prev_sub and self.unlock_by is not None:
            pid, host, cmd = self.unlock_by
            if o["submitter"] is not None:
                self.holder = (pid, host, cmd)
                self.promoted_rounds += 1
                if pid in self.rounds:
                    r = self.rounds[pid]
                    r["promoted"] = True
                    self.top_promoted.add(r.get("top"))
                    if r.get("top") == "userresub_window":
                        # the holder had left before the command looked: an ordinary resubmission of a complete submission starts here
                        self.epoch += 1
                        self.epoch_transition = True
                    if pid == self.cancel_pid and self.cancel_ids_at_promotion is None:
                        self.cancel_ids_at_promotion = list(o["ids"])
                        self.cancel_complete_at_promotion = bool(o["complete"])
                        self.cancel_truth_at_promotion = sorted(self.active_batches())  # what the scheduler really holds for this submission
                    r["ids0"] = list(o["ids"])
                    r["rows0"] = set(self._rows_on_disk())
                    r["canceled0"] = o["canceled"]
                self.log("PROMOTED", pid, host, cmd[:40])
            else:
                if self.holder is not None and self.holder[0] != pid:
                    hp = self.holder
                    alive = any(b.pid == hp[0] for b in self.actors.values())
                    if alive:
                        self.viol("C10", "foreign-demote", f"process {pid} ({cmd[:50]}@{host}) cleared the submitter role held by live process {hp[0]} ({hp[2][:50]}@{hp[1]})")
                self.holder = None
                self.log("DEMOTED", pid, host)
        # completion / cancel visibility
        if self.epoch_transition:
            return
        if o["complete"] and not (self.obs and self.obs[-1]["complete"] and self.obs[-1].get("epoch") == self.epoch):
            self.complete_seen += 1
            self.complete_epochs[self.epoch] = self.complete_epochs.get(self.epoch, 0) + 1
            self.log("COMPLETE_VISIBLE", o["why"])
            self.on_complete_visible(o)
        if o["canceled"] and self.canceled_visible_step is None:
            self.canceled_visible_step = self.steps
            self.cancel_unsubmitted = sum(1 for v in o["jobs"].values() if v[0] == "not_submitted")
            self.cancel_active = len(self.cancel_ids_at_promotion or [])
            self.log("CANCELED_VISIBLE", o["why"])

    def on_complete_visible(self, o):
        # C05-3: results summary written before the flag; every job has a result (fault-free); once per epoch
        if self.complete_epochs[self.epoch] > 1:
            self.viol("C05", "completed-twice", f"completion flag set {self.complete_epochs[self.epoch]} times in one (re)submission")
        w = [s for (s, e) in self.results_json_writes if e == self.epoch]
        if not w and self.scen.get("mode") != "local":
            self.viol("C05", "flag-before-summary", "completion flag visible but results.json was not written in this (re)submission")
        if self.ff and not self.scen.get("cancel") and not self.scen.get("cycle") and not self.faults_injected:
            rows = self.rows_on_disk()
            miss = [n for n in self.jobs if n not in rows]
            if miss and not self.rows_unknown:
                self.viol("C05", "complete-without-results", f"completion flag set but jobs {miss} have no result")
        if self.ff_now and not self.scen.get("cancel") and not self.scen.get("cycle") and self.scen.get("mode") != "local" and self.epoch == 0 and self.cancel_started is None:
            # the summary written before the flag must hold one result per job: a result that still sits uncollected in a
            # node file while the submission is declared complete is reported to the user as missing
            try:
                data = json.load(open(os.path.join(self.out, "results.json")))
                names = sorted(r["name"] for r in data.get("results", []))
                if data.get("missing_jobs") or names != sorted(self.jobs):
                    self.viol("C05", "complete-with-missing-jobs", f"completion flag set in a fault-free run while the results summary reports missing jobs {data.get('missing_jobs')} ({len(names)} results for {len(self.jobs)} jobs)")
            except (OSError, ValueError):
                pass
        if self.hooks_cfg().get("teardown"):
            t = [h for h in self.hooks_seen if h["kind"] == "teardown" and h["epoch"] == self.epoch]
            if not t:
                self.viol("C16", "teardown-missing-before-flag", "completion flag visible but teardown command has not run")

    @property
    def ff_now(self):
        """Fault-free so far: no injected fault, no killed node (scancel kills included)."""
        return self.ff and not self.status_faults and not self.faults_injected and not any(b.get("killed") for b in self.batches.values())

    def hooks_cfg(self):
        return self.scen.get("hooks") or {}

    # ------------------------------------------------------------------ lazy-round oracle (C05-2)
    def check_round_end(self, pid):
        r = self.rounds.pop(pid)
        if r.get("promoted"):
            pass
        else:
            self.refused_rounds += 1
        if not r.get("promoted") or not self.ff_now or r["sb_fail"] or self.scen.get("mode") == "local" or self.scen.get("dry_run"):
            return
        if r["kind"] not in ("try-submit-jobs", "submit-jobs") or r.get("epoch0") != self.epoch:
            return
        o = self.observe(f"round end {r['host']}")
        if o is None:
            if not self.obs:
                return
            o = self.obs[-1]
        if o["canceled"] or o["complete"] or r.get("canceled0"):
            return
        if self.top_rc.get(r.get("top")) not in (None, 0) or r.get("crashed"):
            return
        self.lazy_checked += 1
        ready = []
        for name, (st, bb) in o["jobs"].items():
            if st == "not_submitted" and all(b in r["rows0"] for b in self.cur_blockers(name)):
                ready.append(name)
        if not ready:
            return
        self.lazy_ready_seen += 1
        believed = len((r["squeue"] or set()) & set(r["ids0"])) + r["sb_ok"]
        mn = self.scen.get("max_nodes")
        if mn is None or believed < mn:
            self.viol(
                "C05",
                "lazy-round",
                f"round {r['cmd']}@{r['host']} left ready jobs {ready} unsubmitted: believed_active={believed} max_nodes={mn} squeue={sorted(r['squeue'] or [])} ids_at_promotion={r['ids0']} own_sbatch={r['sb_ok']}",
            )
        else:
            self.lazy_justified += 1

    def cur_blockers(self, name):
        """Blockers that matter in the current epoch (after a resubmission: only those being rerun)."""
        bl = self.jobs[name]["blocked_by"]
        if self.resub and self.epoch > 0:
            sel = self.resub["selected"]
            return [b for b in bl if b in sel] if name in sel else bl
        return bl

    # ------------------------------------------------------------------ simulated SLURM + probes
    def active_batches(self):
        return [bid for bid, b in self.batches.items() if b["state"] in ("PENDING", "RUNNING")]

    def round_of(self, msg):
        return self.rounds.get(msg.get("ppid"))

    def on_sbatch(self, a, msg):
        script = msg["argv"][1] if len(msg["argv"]) > 1 else ""
        r = self.round_of(msg)
        self.shared_event(a, "sbatch", os.path.basename(script))
        f = self.scen.get("faults") or {}
        inj = None
        if f.get("sbatch_fail") and self.rng.random() < f["sbatch_fail"]:
            inj = "fail"
        elif f.get("sbatch_garbage") and self.rng.random() < f["sbatch_garbage"]:
            inj = "garbage"
        if f.get("sbatch_fail_re") and re.search(f["sbatch_fail_re"], script):
            inj = "fail"  # every sbatch of the batches whose script path matches is rejected
        fa = self.fault_at(a, msg, "sbatch")
        if fa:
            inj = fa
        if inj == "fail":
            if r is not None:
                r["sb_fail"] += 1
            if not fa:
                self.faults_injected.append(("sbatch_fail", script))
            self.log("SBATCH_FAIL", script)
            try:
                names = oracle_batch.read_batch(self.root, script)[0]
            except Exception:
                names = None
            self.failed_sbatch_jobs = getattr(self, "failed_sbatch_jobs", set()) | set(names or [])
            return self.reply(a, err="sbatch: error: Batch job submission failed: injected\n", rc=1)
        try:
            names, cfg, txt, run, cfgp = oracle_batch.read_batch(self.root, script)
        except Exception as e:
            self.viol(self.scen.get("script_prop", "C07"), "unreadable-batch", f"sbatch {script}: the script handed over does not lead to a run script with a run-jobs line and a batch configuration: {e!r}")
            return self.reply(a, err="sbatch: error\n", rc=1)
        rows = self.rows_on_disk()
        finished = set(rows)
        if self.resub and self.epoch > 0:
            pass
        eff = self.jobs
        if self.resub and self.epoch > 0:
            eff = {n: dict(j, blocked_by=self.cur_blockers(n)) for n, j in self.jobs.items()}
        oracle_batch.check_batch(eff, self.groups, names, cfg, txt, run, script, self.outname, finished if not self.rows_unknown else None, lambda k, t: self.viol(self.scen.get("script_prop", "C07") if k in ("hpc-params", "script-last-line", "script-without-srun", "run-options", "run-script") else "C07", k, t))
        if inj == "garbage":
            if r is not None:
                r["sb_fail"] += 1
            self.faults_injected.append(("sbatch_garbage", script))
            self.log("SBATCH_GARBAGE", script)
            self.failed_sbatch_jobs = getattr(self, "failed_sbatch_jobs", set()) | set(names or [])
            return self.reply(a, out="sbatch: Submitted batch job\nqueued.\n", rc=0)
        self.next_id += 1
        bid = self.next_id
        self.batches[bid] = {"state": "PENDING", "script": script, "proc": None, "seen": False, "jobs": names or [], "epoch": self.epoch}
        active = len([b for b in self.active_batches() if self.batches[b]["epoch"] == self.epoch])  # per submission
        self.max_active = max(self.max_active, active)
        rec = {"id": bid, "script": script, "jobs": names or [], "by": a.host, "active_after": active, "step": self.steps, "epoch": self.epoch}
        self.sbatches.append(rec)
        if r is not None:
            r["sb_ok"] += 1
        self.log("SBATCH", bid, script, names, "by", a.host, "active", active)
        mn = self.scen.get("max_nodes")
        if mn and active > mn:
            self.viol("C06", "max-nodes", f"{active} batches queued or running > max_nodes {mn} after sbatch {script} by {a.host}")
        if self.complete_epochs.get(self.epoch):
            self.viol("C05", "sbatch-after-complete", f"sbatch {script} after the completion flag was visible")
        if self.canceled_visible_step is not None:
            self.viol("C14", "sbatch-after-cancel", f"sbatch {script} ({names}) by {a.cmd[:30]} child of {r['cmd'] if r else '?'}@{a.host} after the submission was marked canceled")
        return self.reply(a, out=f"Submitted batch job {bid}\n", rc=0)

    LIVE_PENDING = ["PENDING", "CONFIGURING", "REQUEUED", "REQUEUE_HOLD", "REQUEUE_FED", "RESV_DEL_HOLD"]
    LIVE_RUNNING = ["RUNNING", "SUSPENDED", "STOPPED", "RESIZING", "SIGNALING", "STAGE_OUT"]

    def on_squeue(self, a, msg):
        argv = msg["argv"]
        r = self.round_of(msg)
        self.squeues += 1
        self.shared_event(a, "squeue", "")
        fa = self.fault_at(a, msg, "squeue")
        f = self.scen.get("faults") or {}
        if fa == "fail" or (f.get("squeue_fail") and self.sq_budget > 0 and self.rng.random() < f["squeue_fail"]):
            if not fa:
                self.sq_budget -= 1  # transient: the scheduler recovers after a bounded number of failed queries
                self.faults_injected.append(("squeue_fail", a.host))
            self.log("SQUEUE_FAIL", a.host)
            if f.get("outage_freeze"):
                # nothing finishes while the scheduler is down and the round is busy retrying (each retry sleeps): the round must
                # decide with exactly the knowledge it had when the outage began
                par = msg.get("ppid")
                self.outage_fails[par] = self.outage_fails.get(par, 0) + 1
                self.outage_freeze = not (self.outage_fails[par] % 7 == 0 or self.sq_budget <= 0)
            if r is not None:
                r["sq_fail"] = r.get("sq_fail", 0) + 1
            return self.reply(a, err="slurm_load_jobs error: Socket timed out on send/recv operation\n", rc=1)
        act = self.active_batches()
        three = "name" in " ".join(argv)
        only = None
        if "-j" in argv:
            only = argv[argv.index("-j") + 1]
        lines = []
        full = self.scen.get("squeue_vocab") == "full"
        for bid in act:
            if only is not None and str(bid) != only:
                continue
            b = self.batches[bid]
            st = b["state"]
            if full and self.rng.random() < 0.5:
                # a live batch may be reported in any live state of the SLURM vocabulary (suspended, requeued, resizing ...)
                st = self.rng.choice(self.LIVE_PENDING if st == "PENDING" else self.LIVE_RUNNING)
            if three:
                lines.append(f"{bid}   batch{bid}   {st}")
            else:
                lines.append(f"{bid}   {st}")
        out = "".join(l + "\n" for l in lines)
        if r is not None:
            s = {str(b) for b in act}
            r["squeue"] = s if r["squeue"] is None else (r["squeue"] | s)
        self.log("SQUEUE", a.host, [str(b) for b in act])
        return self.reply(a, out=out, rc=0)

    def on_scancel(self, a, msg):
        try:
            bid = int(msg["argv"][1])
        except (ValueError, IndexError):
            return self.reply(a, err="scancel: error: Invalid job id\n", rc=1)
        self.log("SCANCEL", bid)
        self.shared_event(a, "scancel", str(bid))
        self.scancelled.add(bid)
        b = self.batches.get(bid)
        if self.scen.get("scancel_gone_fails") and (b is None or b["state"] == "DONE"):
            # the batch has left the scheduler's books (it ended a while ago): a real scancel fails with "Invalid job id"
            self.scancel_failures = getattr(self, "scancel_failures", 0) + 1
            return self.reply(a, err=f"scancel: error: Kill job error on job id {bid}: Invalid job id specified\n", rc=1)
        self.reply(a, rc=0)
        if b and b["state"] == "PENDING":
            b["state"] = "DONE"
            b["cancelled"] = True
        elif b and b["state"] == "RUNNING":
            b["kill_pending"] = True

    def node_limit(self, job, node):
        if self.scen.get("mode") == "local":
            g = self.scen["groups"][0]
            return g["procs_opt"] if g.get("procs_opt") else os.cpu_count()
        g = self.groups[self.jobs[job]["group"]]
        return g["procs_opt"] if g.get("procs_opt") else 3

    def on_probe(self, a, msg):
        job = msg["env"].get("JADE_JOB_NAME")
        if job not in self.jobs:
            self.viol("C19", "unknown-job-launch", f"probe launched with JADE_JOB_NAME={job!r} argv={msg['argv']}")
            return self.reply(a, rc=97)
        rows = self.rows_on_disk()
        rec = {"node": a.node, "host": a.host, "step": self.steps, "epoch": self.epoch, "argv": msg["argv"][1:], "env": {k: v for k, v in msg["env"].items() if k.startswith("JADE_") or k == "SLURM_JOB_ID"}}
        self.launches.setdefault(job, []).append(rec)
        if msg.get("events"):
            self.job_events_written.append(msg["events"][0])
            self.job_events_written.extend(msg["events"][2:])  # resource samples, written at the start as well
            self.job_events_pending[a.pid] = msg["events"][1]
        self.running_jobs[a.pid] = (job, a.node)
        live = sum(1 for (_j, n) in self.running_jobs.values() if n == a.node)
        self.max_live[a.node or "local"] = max(self.max_live.get(a.node or "local", 0), live)
        self.log("LAUNCH", job, "node", a.node, "live", live)
        self.shared_event(a, "launch", job)
        same_epoch = [l for l in self.launches[job] if l["epoch"] == self.epoch]
        if len(same_epoch) > 1:
            self.viol("C01", "job-started-twice", f"job {job} started {len(same_epoch)} times in one submission (nodes {[l['node'] for l in same_epoch]})")
        # C02
        for b in self.cur_blockers(job):
            if b not in rows and not self.rows_unknown:
                self.viol("C02", "started-before-blocker", f"{job} started on node {a.node} before blocker {b} has a recorded outcome")
        lim = self.node_limit(job, a.node)
        if live > lim:
            self.viol("C06", "node-processes", f"node {a.node}: {live} job processes running > limit {lim}")
        # C04: a job that the model says is canceled must never start (fault-free only)
        # node lifecycle order (C16)
        if a.node and self.hooks_cfg().get("nsetup"):
            if not any(h["kind"] == "nsetup" and h["node"] == a.node for h in self.hooks_seen):
                self.viol("C16", "job-before-node-setup", f"job {job} started on node {a.node} before the node setup command ran")
        if a.node and any(h["kind"] == "nteardown" and h["node"] == a.node for h in self.hooks_seen):
            self.viol("C16", "job-after-node-teardown", f"job {job} started on node {a.node} after the node teardown command")
        # C19 boundary basics
        exp_env_out = self.outname
        if msg["env"].get("JADE_RUNTIME_OUTPUT") != exp_env_out:
            self.viol("C19", "env-runtime-output", f"{job}: JADE_RUNTIME_OUTPUT={msg['env'].get('JADE_RUNTIME_OUTPUT')!r}")
        a.msg = dict(msg, k="jobrun")
        a.state = "waiting"

    def finish_job(self, a):
        msg = a.msg
        job = msg["env"].get("JADE_JOB_NAME")
        j = self.jobs[job]
        rc = j[self.resub.get("rc_key", "rc2")] if (self.epoch > 0 and self.resub and job in self.resub["selected"]) else j["rc"]
        self.finished.setdefault(job, []).append((rc, self.epoch))
        if a.pid in self.job_events_pending:
            self.job_events_written.append(self.job_events_pending.pop(a.pid))
        self.finish_step.setdefault(job, self.steps)
        self.log("FINISH", job, rc)
        self.shared_event(a, "finish", job)
        out = f"OUT-{job}\n"
        err = f"ERR-{job}\n"
        self.reply(a, rc=rc, out=out, err=err)

    def on_hookprobe(self, a, msg):
        kind = msg["argv"][1] if len(msg["argv"]) > 1 else "?"
        rows = self.rows_on_disk()
        rec = {"kind": kind, "host": a.host, "node": a.node, "env": {k: v for k, v in msg["env"].items() if k.startswith("JADE")}, "step": self.steps, "epoch": self.epoch,
               "rows": len(rows), "sbatches": len(self.sbatches), "live_on_node": sum(1 for (_j, n) in self.running_jobs.values() if n == a.node) if a.node else 0,
               "launched_on_node": sum(1 for ls in self.launches.values() for l in ls if l["node"] == a.node and l["epoch"] == self.epoch) if a.node else 0}
        self.hooks_seen.append(rec)
        self.log("HOOK", kind, a.host, a.node, rec["env"], "rows", len(rows))
        self.shared_event(a, "hook", kind)
        V = lambda key, text: self.viol("C16", key, text)
        if rec["env"].get("JADE_RUNTIME_OUTPUT") != self.outname:
            V("hook-env", f"{kind}: JADE_RUNTIME_OUTPUT={rec['env'].get('JADE_RUNTIME_OUTPUT')!r}")
        if kind == "setup":
            if len([h for h in self.hooks_seen if h["kind"] == "setup"]) > 1:
                V("setup-twice", "setup command ran more than once")
            if self.sbatches:
                V("setup-after-sbatch", "setup command ran after a batch was handed to the HPC")
            if a.host != "login":
                V("setup-host", f"setup command ran on {a.host}")
        elif kind == "teardown":
            n = len([h for h in self.hooks_seen if h["kind"] == "teardown" and h["epoch"] == self.epoch])
            if n > 1:
                V("teardown-twice", f"teardown command ran {n} times in one (re)submission")
            if self.complete_epochs.get(self.epoch):
                V("teardown-after-flag", "teardown command ran after the completion flag was set")
            # a scheduler that does not answer loses no job: after status-query failures alone every job still gets its outcome
            only_squeue = set(self.scen.get("faults") or {}) <= {"squeue_fail", "squeue_fail_budget", "max_recoveries", "outage_freeze"} and all(f[0] == "squeue_fail" for f in self.faults_injected)
            if (only_squeue or (self.ff and not self.faults_injected)) and not self.scen.get("cancel") and not self.rows_unknown and not self.scen.get("cycle"):
                miss = [n_ for n_ in self.jobs if n_ not in rows]
                if miss:
                    V("teardown-before-outcomes", f"teardown ran while jobs {miss} have no outcome")
        elif kind in ("nsetup", "nteardown"):
            if a.node and a.node.isdigit():
                bjobs = self.batches.get(int(a.node), {}).get("jobs", [])
            else:  # local mode: the submitting process runs all jobs itself
                bjobs = list(self.jobs)
            grp = self.jobs[bjobs[0]]["group"] if bjobs else None
            if rec["env"].get("JADE_SUBMISSION_GROUP") != grp:
                V("node-hook-env", f"{kind} on node {a.node}: JADE_SUBMISSION_GROUP={rec['env'].get('JADE_SUBMISSION_GROUP')!r}, batch belongs to {grp}")
            same = [h for h in self.hooks_seen if h["kind"] == kind and h["node"] == a.node]
            if len(same) > 1:
                V(f"{kind}-twice", f"{kind} ran {len(same)} times on node {a.node}")
            if kind == "nsetup" and rec["launched_on_node"]:
                V("node-setup-late", f"node setup on {a.node} ran after {rec['launched_on_node']} jobs had started")
            if kind == "nteardown":
                if rec["live_on_node"]:
                    V("node-teardown-early", f"node teardown on {a.node} while {rec['live_on_node']} jobs still run")
                notyet = [j for j in bjobs if not any(l["node"] == a.node for l in self.launches.get(j, [])) and j not in rows]
                if notyet and self.ff:
                    V("node-teardown-early", f"node teardown on {a.node} before jobs {notyet} of its batch ended")
        rc = (self.hooks_cfg().get("rc") or {}).get(kind, 0)
        return self.reply(a, rc=rc)

    # ------------------------------------------------------------------ fault points
    def fault_at(self, a, msg, what):
        """For sbatch/squeue RPC actors: is the enumerated fault of this scenario aimed at this call?"""
        f = self.scen.get("faults") or {}
        tgt = f.get("rpc_at")  # [ord_of_round, "sbatch"|"squeue", nth, kind]
        if not tgt or self.crash_done:
            return None
        par = msg.get("ppid")
        if self.sub_ord.get(par) != tgt[0] or tgt[1] != what:
            return None
        key = (par, what)
        self.rpc_counts = getattr(self, "rpc_counts", {})
        self.rpc_counts[key] = self.rpc_counts.get(key, 0) + 1
        first = tgt[2]
        # a failing external command is retried 6 times: fail every attempt from the nth on
        if self.rpc_counts[key] >= first and self.rpc_counts[key] < first + 7:
            if self.rpc_counts[key] == first + 6:
                self.crash_done = True
            if self.rpc_counts[key] == first:
                self.faults_injected.append((f"{what}_{tgt[3]}_all_retries", a.host, f"{what} #{first} of round {tgt[0]}", (what, "", ""), first))
                if f.get("cont") is not None:
                    self.rng = random.Random(f"{self.seed}:{f['cont']}")
            return tgt[3]
        return None

    def point_class(self, msg):
        ev = msg.get("ev") or msg["k"]
        base = os.path.basename(msg.get("p", "")) if msg.get("p") else ""
        base = re.sub(r"jade-[0-9a-f]{8}-[0-9a-f\-]+", "jade-UUID", base)
        base = re.sub(r"\d+", "N", base)
        if msg["k"] == "popen":
            base = os.path.basename((msg.get("argv") or ["?"])[0])
        mode = msg.get("m")
        if mode is None and msg.get("ev") == "open":
            f = msg.get("f") or 0
            mode = "excl" if f & O_EXCL else ("creat" if f & O_CREAT else ("wr" if f & (O_WRONLY | O_RDWR) else "rd"))
        return (ev, base, mode or "")

    def maybe_fault(self, a, msg):
        """Enumerated / random process faults at this scheduling point.  Returns True if the actor was dealt with."""
        f = self.scen.get("faults") or {}
        if not f or a.role != "py" or msg["k"] not in ("io", "popen", "sleep", "waited"):
            return False
        # enumerated submitter-round fault: [round ordinal, k, kind]
        tgt = f.get("crash_at")
        if a.pid in self.sub_ord:
            o = self.sub_ord[a.pid]
            self.sub_steps[a.pid] = self.sub_steps.get(a.pid, 0) + 1
            if f.get("record_points") is not None and o == f["record_points"]:
                self.sub_classes.setdefault(o, []).append(self.point_class(msg))
            if tgt and o == tgt[0] and self.sub_steps[a.pid] == tgt[1] and not self.crash_done:
                self.crash_done = True
                kind = tgt[2]
                iswrite = is_write_open(msg) or msg.get("ev") in ("os.rename", "os.remove", "os.mkdir")
                if kind in ("raise", "torn") and not (is_trunc_open(msg) if kind == "torn" else iswrite):
                    kind = "die"
                if kind == "lockfail" and not is_lock_acquire(msg):
                    kind = "die"
                cls = self.point_class(msg)
                self.faults_injected.append((kind, a.host, a.cmd[:40], cls, tgt[1]))
                self.status_faults.append(kind)
                if f.get("cont") is not None:
                    self.rng = random.Random(f"{self.seed}:{f['cont']}")
                    self.scen["user"] = {"try_submit": 2, "show_status": 1, "p": 0.02}
                self.log("FAULT", kind, a.host, a.cmd[:40], cls, "k", tgt[1])
                self.rows_on_disk()
                if a.pid in self.rounds:
                    self.rounds[a.pid]["crashed"] = True
                if kind == "nodekill" and a.node and a.node.isdigit():
                    # the whole node dies (walltime, hardware) while its submitter round is at this point
                    self.kill_node(int(a.node), why="enumerated, node dies inside its submitter round")
                elif kind in ("die", "nodekill"):
                    self.reply(a, a="die")
                elif kind == "torn":
                    self.reply(a, a="torn")
                elif kind == "lockfail":
                    self.reply(a, a="raise", errno=13)
                else:
                    self.reply(a, a="raise", errno=122)
                return True
            pr = f.get("crash_p")
            if pr and not self.crash_done and msg["k"] in ("io", "popen") and self.rng.random() < pr:
                self.crash_done = True
                kind = self.rng.choice(f.get("crash_kinds") or ["die"])
                iswrite = is_write_open(msg) or msg.get("ev") in ("os.rename",)
                if kind != "die" and not iswrite:
                    kind = "die"
                if kind == "torn" and not is_trunc_open(msg):
                    kind = "die"
                cls = self.point_class(msg)
                self.faults_injected.append((kind, a.host, a.cmd[:40], cls, self.sub_steps[a.pid]))
                self.status_faults.append(kind)
                self.log("FAULT", kind, a.host, a.cmd[:40], cls)
                self.rows_on_disk()
                if a.pid in self.rounds:
                    self.rounds[a.pid]["crashed"] = True
                if kind == "die":
                    self.reply(a, a="die")
                elif kind == "torn":
                    self.reply(a, a="torn")
                else:
                    self.reply(a, a="raise", errno=122)
                return True
        cc = f.get("crash_cmd")  # [substring of the command line, k, kind]: k-th scheduling point of the first such process
        if cc and not self.crash_done and cc[0] in a.cmd and (self.cc_pid is None or self.cc_pid == a.pid):
            self.cc_pid = a.pid
            self.cc_steps += 1
            if f.get("record_cmd_points"):
                self.cmd_classes.append(self.point_class(msg))
            if self.cc_steps == cc[1]:
                self.crash_done = True
                kind = cc[2]
                iswrite = is_write_open(msg) or msg.get("ev") in ("os.rename", "os.remove", "os.mkdir")
                if kind in ("raise", "torn") and not (is_trunc_open(msg) if kind == "torn" else iswrite):
                    kind = "die"
                cls = self.point_class(msg)
                self.faults_injected.append((kind, a.host, a.cmd[:40], cls, cc[1]))
                self.status_faults.append(kind)
                self.log("FAULT", kind, a.host, a.cmd[:40], cls, "k", cc[1])
                self.rows_on_disk()
                if a.pid in self.rounds:
                    self.rounds[a.pid]["crashed"] = True
                if kind == "die":
                    self.reply(a, a="die")
                elif kind == "torn":
                    self.reply(a, a="torn")
                else:
                    self.reply(a, a="raise", errno=122)
                return True
        kn = f.get("killnode_at")  # [run-jobs ordinal, k]
        if a.pid in self.run_ord:
            o = self.run_ord[a.pid]
            self.run_steps[a.pid] = self.run_steps.get(a.pid, 0) + 1
            if f.get("record_run_points") is not None and o == f["record_run_points"]:
                self.run_classes.setdefault(o, []).append(self.point_class(msg))
            if kn and o == kn[0] and self.run_steps[a.pid] == kn[1] and not self.killnode_done:
                self.killnode_done = True
                cls = self.point_class(msg)
                self.faults_injected.append(("node_kill", a.host, cls, kn[1]))
                self.log("KILLPOINT", a.host, cls, "k", kn[1])
                self.kill_node(int(a.node), why="enumerated")
                return True
        return False

    # ------------------------------------------------------------------ stepping an actor
    def step_actor(self, a):
        msg = a.msg
        if a is not self.last_actor:
            self.switches += 1
            self.last_actor = a
        k = msg["k"]
        if not (k == "sleep" or (k == "io" and msg.get("ev") == "open" and msg.get("p", "").endswith(".lock")) or (k == "io" and msg.get("ev") == "os.mkdir" and os.path.isdir(msg.get("p", "")))):
            self.poll_streak = 0  # something other than a lock poll happened
        if k == "hello":
            if a.node and a.node.isdigit() and int(a.node) in self.batches:
                self.batches[int(a.node)]["seen"] = True
            if a.role == "sbatch":
                return self.on_sbatch(a, msg)
            if a.role == "squeue":
                return self.on_squeue(a, msg)
            if a.role == "scancel":
                return self.on_scancel(a, msg)
            if a.role == "probe":
                return self.on_probe(a, msg)
            if a.role == "hookprobe":
                return self.on_hookprobe(a, msg)
            self.on_py_hello(a, msg)
            return self.reply(a)
        if k == "jobrun":
            return self.finish_job(a)
        if k in ("call", "ret"):
            self.on_call_event(a, msg)
            return self.reply(a)
        if self.maybe_fault(a, msg):
            return
        if k == "io":
            self.on_io(a, msg)
        elif k == "popen":
            pass
        if self.verbose or self.scen.get("trace_ev"):
            self.log("EV", a.pid, a.host, msg.get("ev") or k, os.path.basename(msg.get("p", "")), msg.get("m"), msg.get("f"))
        self.reply(a)

    def on_call_event(self, a, msg):
        pass

    def on_py_hello(self, a, msg):
        cmd = a.cmd
        kind = None
        for kname in ("try-submit-jobs", "resubmit-jobs", "cancel-jobs", "show-status", "submit-jobs", "run-jobs", "submit-next-stage", "pipeline"):
            if kname in cmd:
                kind = kname
                break
        if kind in ("try-submit-jobs", "submit-jobs", "resubmit-jobs", "cancel-jobs"):
            self.sub_ord[a.pid] = len(self.sub_ord)
            self.rounds[a.pid] = {
                "rows0": set(self._rows_on_disk()),
                "squeue": None,
                "sb_ok": 0,
                "sb_fail": 0,
                "promoted": kind == "submit-jobs",
                "ids0": list(self.obs[-1]["ids"]) if self.obs else [],
                "host": a.host,
                "cmd": " ".join(a.argv[:3]),
                "kind": kind,
                "top": a.top,
                "ord": self.sub_ord[a.pid],
                "epoch0": self.epoch,
            }
            self.round_hosts.add(a.host)
            if kind == "cancel-jobs":
                self.cancel_pid = a.pid
        if kind == "run-jobs":
            self.run_ord[a.pid] = len(self.run_ord)
        self.log("PROC", a.pid, a.host, a.node, " ".join(a.argv[:5]))

    def _event_lines_now(self):
        out = set()
        for f in glob.glob(os.path.join(glob.escape(self.out), "*events.log")):
            try:
                for line in open(f):
                    if line.strip():
                        rec = json.loads(line)
                        out.add(json.dumps([rec.get("timestamp"), rec.get("source"), rec.get("category"), rec.get("message"), rec.get("data")], sort_keys=True))
            except (OSError, ValueError):
                continue
        return out

    def on_io(self, a, msg):
        p = msg.get("p", "")
        base = os.path.basename(p)
        ev = msg.get("ev")
        if SHARED.search(base):
            self.shared_event(a, ev + ("w" if is_write_open(msg) else ""), re.sub(r"\d+", "N", base))
        if ev == "open" and self.scen.get("check_events"):
            d = os.path.dirname(p)
            if base.endswith("events.log") and d == self.out and not is_write_open(msg) and a.pid not in self.ev_snap_by_pid:
                # a process starts reading the event logs (possibly to consolidate them): what is in them at this instant?
                self.ev_snap_by_pid[a.pid] = self._event_lines_now()
            if is_write_open(msg) and os.path.basename(d) == "events" and os.path.dirname(d) == self.out and a.pid not in self.ev_consolidators:
                # ... and it writes the consolidated summary: events that reach the logs after its first read cannot be in it
                self.ev_consolidators.add(a.pid)
                self.ev_consolidation_snapshot = self.ev_snap_by_pid.get(a.pid)
                self.log("EVENTS_CONSOLIDATED by", a.pid, a.host, "lines at its first read", len(self.ev_consolidation_snapshot or ()))
        if ev == "os.remove" and base == "cluster_config.json.lock" and os.path.dirname(p) == self.out:
            self.want_obs = f"unlock by {a.host}"
            self.unlock_by = (a.pid, a.host, a.cmd)
        if ev == "os.rename" and base.endswith(".lock"):
            # filelock's stale-lock break is about to rename the marker away: whose marker is at that path now?
            try:
                with open(p) as f:
                    holder = int(f.readline().strip())
            except (OSError, ValueError):
                holder = None
            live = next((b for b in self.actors.values() if b.pid == holder and b is not a and b.state != "dead"), None)
            if live is not None:
                self.live_lock_breaks += 1
                self.log("LIVE_LOCK_BROKEN", base, "holder", live.pid, live.host, "by", a.pid, a.host)
        if ev == "os.remove" and base.endswith(".lock"):
            # a lock marker is about to be deleted: by its holder (release) - or by somebody else?  (The lock library's own
            # stale-marker break renames first; a plain removal of another live process's marker can only be JADE's doing.)
            try:
                with open(p) as f:
                    holder = int(f.readline().strip())
            except (OSError, ValueError):
                holder = None
            live = next((b for b in self.actors.values() if b.pid == holder and b is not a and b.state != "dead"), None)
            if live is not None:
                prop = "C10" if base == "cluster_config.json.lock" else "C08"
                self.viol(prop, "live-lock-removed", f"{a.cmd[:40]}@{a.host} (pid {a.pid}) removes {base}, which is held by the live process {live.pid} ({live.cmd[:40]}@{live.host}): from here on the lock excludes nobody")
        if ev == "open" and base == "results.json" and is_write_open(msg):
            self.results_json_writes.append((self.steps, self.epoch))
        if ev == "open" and is_write_open(msg) and re.match(r"(config_batch_\d+\.json|run_batch_\d+\.sh)$", base):
            if os.path.exists(p):
                self.viol("C01", "batch-id-reused", f"{a.cmd[:40]}@{a.host} overwrites existing {base}")
            self.batch_cfg_writes[base] = self.batch_cfg_writes.get(base, 0) + 1
        if a.pid == self.cancel_pid and is_lock_acquire(msg) and base == "cluster_config.json.lock" and self.cancel_ids_at_promotion is None and self.obs:
            # ids as persisted just before cancel-jobs takes the lock for its promotion
            self.cancel_pre_ids = list(self.obs[-1]["ids"])
        # extra observation instants inside commands that mutate status outside HpcSubmitter.run
        if self.scen.get("obs_inside") and any(x in a.cmd for x in ("resubmit-jobs", "cancel-jobs")) and ev in ("open", "os.rename", "os.remove") and not base.endswith(".log"):
            self.unlock_by = None
            self.observe(f"inside {a.argv[1] if len(a.argv) > 1 else a.cmd[:20]} before {ev} {base}")

    # ------------------------------------------------------------------ scheduler actions
    def start_batch(self, bid):
        b = self.batches[bid]
        env = dict(self.env)
        env.update(
            SLURM_JOB_ID=str(bid),
            SLURM_NODEID="0",
            SLURM_CPUS_ON_NODE="3",
            LOCAL_SCRATCH=os.path.join(self.root, "scratch"),
            VSIM_NODE=str(bid),
            VSIM_HOST=f"node{bid}",
            VSIM_TAG=f"batch{bid}",
        )
        os.makedirs(env["LOCAL_SCRATCH"], exist_ok=True)
        lf = open(os.path.join(self.root, f"batch_{bid}.log"), "w")
        b["proc"] = subprocess.Popen(["bash", b["script"]], env=env, stdout=lf, stderr=lf, stdin=subprocess.DEVNULL, cwd=self.root, start_new_session=True)
        lf.close()
        b["state"] = "RUNNING"
        self.pending[b["proc"].pid] = bid
        self.log("BATCH_START", bid)
        self.sig.update(f"start{bid};".encode())

    def kill_node(self, bid, why="fault"):
        b = self.batches[bid]
        victims = [a for a in self.actors.values() if a.node == str(bid)]
        rj = [j for (j, n) in self.running_jobs.values() if n == str(bid)]
        self.log("KILL_NODE", bid, why, [(a.pid, a.role) for a in victims], "running jobs", rj)
        self.killed_jobs |= set(rj)
        if any(a.role == "py" and "run-jobs" not in a.cmd for a in victims):
            self.status_faults.append("node killed while it ran a submitter round")
        b["killed"] = True
        b["killed_step"] = self.steps
        for a in victims:
            try:
                os.kill(a.pid, 9)
            except (ProcessLookupError, TypeError):
                pass
        if b["proc"] is not None:
            try:
                os.killpg(b["proc"].pid, 9)
            except ProcessLookupError:
                pass
            b["proc"].wait()
        b["state"] = "DONE"
        b.pop("kill_pending", None)
        t = time.time() + 10
        while any(a.node == str(bid) for a in self.actors.values()) and time.time() < t:
            self.pump(0.2)
        self.pending = {p: t_ for p, t_ in self.pending.items() if not (isinstance(t_, tuple) and not os.path.exists(f"/proc/{p}"))}

    # ------------------------------------------------------------------ choice
    def holds_lock(self, a, cluster_only=False):
        """Does this actor hold one of the file locks?  A process is never delayed while it holds the cluster lock (everything
        is serialized by it: a sleep inside one coarse lock adds nothing but timeouts).  Inside the consolidated-results lock a
        bounded delay is allowed (cluster_only=True): runners append under the per-node locks only, so there are interleavings
        to explore, and <= 1000 steps of 0.05-s lock polls stay far below the 300-s lock timeout."""
        files = [os.path.join(self.out, "cluster_config.json.lock")]
        if not cluster_only:
            files += [os.path.join(self.out, "processed_results.csv.lock")] + glob.glob(os.path.join(glob.escape(self.out), "results", "*.lock"))
        for lf in files:
            try:
                with open(lf) as f:
                    first = f.readline().strip()
                if first and int(first) == a.pid:
                    return True
            except (OSError, ValueError):
                continue
        return False

    def holds_node_lock_of_busy_batch(self, a):
        """Is this (collecting) process inside the lock hold of a node results file whose batch still runs jobs?  (Then the
        runner of that batch will want the same lock when its next job ends.)"""
        for lf in glob.glob(os.path.join(glob.escape(self.out), "results", "results_batch_*.csv.lock")):
            try:
                with open(lf) as f:
                    first = f.readline().strip()
                if not (first and int(first) == a.pid):
                    continue
            except (OSError, ValueError):
                continue
            m = re.search(r"results_batch_(\d+)\.csv\.lock$", lf)
            if not m:
                continue
            for bid, b in self.batches.items():
                if b["state"] == "RUNNING" and re.search(rf"_batch_{m.group(1)}\.sh$", b["script"]) and any(n == str(bid) for (_j, n) in self.running_jobs.values()):
                    return True
        return False

    def lock_held_by_live_actor(self):
        pids = {a.pid for a in self.actors.values() if a.state == "waiting" and not (a.msg and a.msg["k"] == "sleep")}
        for lf in [os.path.join(self.out, "cluster_config.json.lock"), os.path.join(self.out, "processed_results.csv.lock")] + glob.glob(os.path.join(glob.escape(self.out), "results", "*.lock")):
            try:
                with open(lf) as f:
                    first = f.readline().strip()
                if first and int(first) in pids:
                    return True
            except (OSError, ValueError):
                continue
        return False

    PARK_POINTS = re.compile(r"(\.lock$|results_batch_\d+\.csv$|processed_results\.csv$|job_status\.json$|cluster_config\.json$|results$|results\.json$)")

    def park_point(self, msg):
        """Long-delay adversary: points between critical sections at which a slow process would be overtaken."""
        if msg["k"] == "popen":
            return os.path.basename((msg.get("argv") or ["?"])[0]) in ("squeue", "sbatch", "scancel", "jade")
        if msg["k"] == "io":
            return bool(self.PARK_POINTS.search(os.path.basename(msg.get("p", ""))))
        return False

    def eg_hold(self, a):
        """Endgame adversary: hold a running job open while its batch has nothing else left to start (the batch is down to
        its last running jobs)."""
        job, node = self.running_jobs.get(a.pid, (None, None))
        if not node or not node.isdigit():
            return False
        b = self.batches.get(int(node))
        if not b:
            return False
        launched = {j for j, ls in self.launches.items() if any(l["epoch"] == self.epoch for l in ls)}
        done = {j for j, l in self.finished.items() if any(e == self.epoch for _, e in l)}
        rows = set(self._rows_on_disk()) if False else set()
        pending = [j for j in b["jobs"] if j not in launched and j not in done]
        # jobs that will never be launched (canceled on the node) do not count: approximate by "all remaining are flagged and blocked by a failed job"
        pending = [j for j in pending if not (self.jobs[j]["flag"] and any(self.finished.get(x, [(0, 0)])[-1][0] != 0 for x in self.jobs[j]["blocked_by"] if x in self.finished))]
        return not pending

    def candidates(self):
        # slow results-lock holder (system form of C08's slice): the k-th critical point a JADE process reaches inside a
        # results-lock hold (node file or consolidated file, never the cluster lock) stalls for longer than the 300-s lock
        # timeout; whoever waits for that lock fails.  From then on the run is not fault-free.
        sh = self.scen.get("slow_results_holder")
        if sh and self.srh is None:
            for a in sorted(self.actors.values(), key=lambda x: x.idx):
                if a.state == "waiting" and a.role == "py" and a.msg.get("k") == "io" and (a.pid, a.n) not in self.srh_seen and self.park_point(a.msg) and "run-jobs" not in a.cmd and self.holds_node_lock_of_busy_batch(a):
                    self.srh_seen.add((a.pid, a.n))
                    if len(self.srh_seen) == sh:
                        self.srh = a
                        self.srh_jump0 = self.time_jumps
                        self.faults_injected.append(("slow_results_lock_holder", a.host, self.point_class(a.msg)))
                        self.log("SLOW_RESULTS_HOLDER", a.pid, a.host, self.point_class(a.msg))
                        break
        cands, sleepers = self._candidates()
        if self.srh is not None and not self.srh_released:
            rest = [c for c in cands if c[2] is not self.srh]
            if self.time_jumps > self.srh_jump0 or self.srh.state == "dead" or (not rest and not sleepers):
                self.srh_released = True
                self.log("SLOW_RESULTS_HOLDER_RELEASED", "time jumps", self.time_jumps - self.srh_jump0)
            else:
                cands = rest
        return cands, sleepers

    def _candidates(self):
        pol = self.scen.get("policy") or {}
        cands = []
        held_job = False
        sleepers = []
        parked = []
        park_p = pol.get("park_p", 0)
        for a in self.actors.values():
            if a.state == "waiting":
                if a.msg["k"] == "sleep" and a.wake > self.vnow:
                    sleepers.append(a)
                    continue
                if self.eg and a.top == "usereg" and a.role == "py":
                    if a.parked_until > self.steps:
                        parked.append(a)
                        continue
                    if self.eg["phase"] in (2, 3) and a.parked_at != a.n and self.park_point(a.msg) and not self.holds_lock(a):
                        a.parked_at = a.n
                        self.eg["count"] += 1
                        if self.eg["count"] == self.eg["k"]:
                            a.parked_until = 10**9
                            self.eg["phase"] = 4  # release the held jobs: the batches finish and leave while the round is stalled here
                            self.eg["at"] = self.point_class(a.msg)
                            self.parks += 1
                            self.log("ENDGAME_STALL", a.pid, a.host, self.eg["at"], "critical point", self.eg["k"])
                            parked.append(a)
                            continue
                if self.park_pid == a.pid and not self.holds_lock(a, cluster_only=True):
                    a.parked_until = self.steps + 400
                    self.park_pid = None
                if a.role == "py" and a.parked_until > self.steps and not (self.eg and a.top == "usereg"):
                    parked.append(a)
                    continue
                if park_p and a.role == "py":
                    if a.parked_at != a.n and self.park_point(a.msg) and self.rng.random() < park_p and not self.holds_lock(a, cluster_only=True):
                        a.parked_at = a.n
                        a.parked_until = self.steps + (self.rng.choice([30, 100, 300, 1000]) if not self.holds_lock(a) else self.rng.choice([30, 100, 300]))
                        self.parks += 1
                        parked.append(a)
                        if self.scen.get("trace_ev"):
                            self.log("PARK", a.pid, a.host, a.msg.get("ev") or a.msg["k"], os.path.basename(a.msg.get("p", "")) or (a.msg.get("argv") or [""])[0], "until", a.parked_until)
                        continue
                w = 1.0
                if a.msg["k"] == "jobrun":
                    if self.frozen_finishes or self.outage_freeze:
                        continue
                    hj = self.scen.get("hold_job")
                    if hj and not self.hold_off and self.running_jobs.get(a.pid, (None, None))[0] == hj["job"]:
                        # slow job: stays running until another job has finished and the node queue has had time to notice
                        t = self.finish_step.get(hj["until"])
                        if t is None or self.steps < t + hj.get("extra", 30):
                            held_job = True
                            continue
                    if self.eg and self.eg["phase"] < 4 and self.eg_hold(a):
                        self.eg["held"] = True
                        continue
                    w = pol.get("finish_w", 0.5)
                cands.append((w, "actor", a))
        for bid, b in self.batches.items():
            if b["state"] == "PENDING":
                cands.append((pol.get("start_w", 0.5), "start", bid))
            elif b["state"] == "RUNNING" and b.get("kill_pending"):
                cands.append((pol.get("scancel_w", 0.3), "kill", bid))
        if held_job and not cands and not sleepers and not parked:
            self.hold_off = True  # nothing else can move: the held job finishes after all
            return self.candidates()
        if self.outage_freeze and not cands and not sleepers and not parked:
            self.outage_freeze = False  # nothing else can move: the outage is over for the jobs
            return self.candidates()
        if parked:
            others = [c for c in cands if not (c[1] == "actor" and c[2].msg["k"] == "sleep")]
            idle_polling = self.steps - self.last_progress_step > 40
            if self.eg and any(a.top == "usereg" and a.parked_until >= 10**9 for a in parked):
                # the stalled endgame round continues only when the rest of the system has run dry: no job left to finish, no
                # batch left to start, and the remaining processes (if any) have been polling without effect for a while
                release = not others and (not sleepers and not cands or idle_polling)
            else:
                release = not any(c[1] == "actor" and c[2].msg["k"] != "jobrun" for c in cands)
            if release:
                # nobody else can move: the parked process with the earliest deadline continues
                a = min(parked, key=lambda x: x.parked_until)
                a.parked_until = 0
                cands.append((1.0, "actor", a))
        if self.eg and self.eg.get("phase", 1) >= 4 and self.scen.get("endgame_kill") and self.fault_budget > 0:
            # endgame with node loss: once a released batch has recorded its last result, its node is killed (walltime / node
            # failure) before it can attempt its own submitter round
            rows = None
            for bid, b in self.batches.items():
                if b["state"] == "RUNNING" and b["seen"] and not any(a.node == str(bid) and a.role == "probe" for a in self.actors.values()):
                    nodeactors = [a for a in self.actors.values() if a.node == str(bid)]
                    if not any("try-submit-jobs" in a.cmd for a in nodeactors) and not any(self.holds_lock(a) for a in nodeactors):
                        rows = rows if rows is not None else set(self._rows_on_disk())
                        if b["jobs"] and all(j in rows for j in b["jobs"]):
                            cands.append((5.0, "faultkill", bid))
        f = self.scen.get("faults") or {}
        if f.get("node_kill") and self.fault_budget > 0 and f.get("node_kill_w", 0.02) > 0:
            for bid, b in self.batches.items():
                if b["state"] == "RUNNING" and b["seen"]:
                    # a node killed while it acts as submitter belongs to C11, not C12
                    if f.get("kill_submitters") or not any(a.node == str(bid) and "try-submit-jobs" in a.cmd for a in self.actors.values()):
                        cands.append((f.get("node_kill_w", 0.02), "faultkill", bid))
        return cands, sleepers

    def choose(self):
        pol = self.scen.get("policy") or {}
        # The installed filelock breaks a stale marker in three steps (read it, rename it away, unlink it) and documents that
        # the break is racy: a contender delayed between its read and its rename can detach the marker of a *live* successor,
        # after which the lock no longer excludes anybody.  That is a property of the lock library, not of JADE, and every
        # JADE property presupposes an exclusive lock - so read+rename is scheduled as one step (no delay, no other process).
        for a in sorted(self.actors.values(), key=lambda x: x.idx):
            if a.state == "waiting" and a.msg.get("ev") == "os.rename" and a.msg.get("p", "").endswith(".lock") and not os.environ.get("VSIM_EXPERIMENT_RACY_BREAK"):
                return (1.0, "actor", a)
        while True:
            cands, sleepers = self.candidates()
            if cands and sleepers and pol.get("time_w") and self.rng.random() < pol["time_w"] * 0.2:
                # A slow process: time passes although somebody could run.  While a live runnable actor holds a file lock
                # only small steps are allowed and at most 60 virtual seconds per hold (the lock timeouts are 300 s), so that no
                # lock timeout is manufactured but a node sleeping in its job poll can wake up inside another process's lock hold.
                nxt = min(a.wake for a in sleepers)
                if not self.lock_held_by_live_actor():
                    self.hold_advance = 0.0
                    self.vnow = nxt
                    continue
                if nxt - self.vnow <= 10.0 and self.hold_advance + (nxt - self.vnow) <= 60.0:
                    self.hold_advance += nxt - self.vnow
                    self.vnow = nxt
                    continue
            if self.eg and self.eg["phase"] == 1 and self.eg.get("held") and "submit" in self.top_rc and not any(c[1] == "start" for c in cands) and (
                not any(c[1] == "actor" and c[2].msg["k"] != "jobrun" for c in cands) or self.steps - self.last_progress_step > 30
            ):
                # every batch is down to its last running jobs (held open) and nobody holds the role: the user looks in
                self.eg["phase"] = 2
                self.spawn_top("usereg", ["jade", "try-submit-jobs", self.outname], self.rng.choice(["login", "login2"]))
                self.settle()
                continue
            if self.eg and self.eg["phase"] in (2, 3) and "usereg" in self.top_rc:
                self.eg["phase"] = 4  # the round ended before its k-th critical point: release
                continue
            if cands and sleepers and self.steps - self.last_progress_step > 60 and all(c[1] == "actor" and c[2].msg["k"] != "jobrun" for c in cands) and not self.lock_held_by_live_actor():
                # busy pollers (poll interval 0) keep the system "runnable" without doing anything: let time pass for the sleepers
                self.vnow = min(a.wake for a in sleepers)
                self.last_progress_step = self.steps
                continue
            if not cands:
                if not sleepers:
                    return None
                # only sleepers: advance virtual time.  A storm of lock polls against a marker nobody alive
                # will remove is compressed into one jump to the poller's timeout.
                if all((a.msg.get("d") or 0) <= 0.11 for a in sleepers):
                    self.poll_streak += 1
                else:
                    self.poll_streak = 0
                if self.poll_streak > 60:
                    self.vnow += 301.0
                    self.poll_streak = 0
                    self.time_jumps += 1
                else:
                    self.vnow = min(a.wake for a in sleepers)
                continue
            kind = pol.get("kind", "walk")
            if kind == "det":
                # deterministic, rng-free policy (used to compare the fork server with fresh interpreters): oldest non-polling actor first,
                # then batch starts, then job finishes in name order
                def key(c):
                    if c[1] == "actor" and c[2].msg["k"] != "jobrun":
                        return (0, c[2].idx, "") if c[2].msg["k"] != "sleep" else (4, c[2].idx, "")  # pollers last: no livelock
                    if c[1] == "start":
                        return (1, c[2], "")
                    if c[1] == "actor":
                        return (2, 0, (c[2].msg.get("env") or {}).get("JADE_JOB_NAME", ""))
                    return (3, 0, str(c[2]))
                return min(cands, key=key)
            if kind == "sticky" and self.last_actor is not None and self.rng.random() < pol.get("sticky", 0.5):
                for c in cands:
                    if c[2] is self.last_actor and c[2].msg["k"] != "jobrun":
                        return c
            if kind == "pct":
                if self.steps in self.pct_points and self.last_actor is not None:
                    self.last_actor.prio = -self.rng.random()
                acts = [c for c in cands if c[1] == "actor" and c[2].msg["k"] != "jobrun"]
                if acts and self.rng.random() < 0.85:
                    return max(acts, key=lambda c: c[2].prio)
            tot = sum(c[0] for c in cands)
            r = self.rng.random() * tot
            for c in cands:
                r -= c[0]
                if r <= 0:
                    return c
            return cands[-1]

    # ------------------------------------------------------------------ main loop
    def idle(self):
        return not self.actors and not self.active_batches()

    def drive(self, max_steps=40000, until=None):
        u = self.scen.get("user") or {}
        while True:
            if self.steps >= max_steps:
                raise Inconclusive(f"step cap {max_steps}")
            if time.time() - self.t0 > self.wall_limit:
                raise Inconclusive(f"wall-clock watchdog {self.wall_limit}s")
            self.settle()
            if self.want_obs:
                self.observe(self.want_obs)
                self.want_obs = None
                self.unlock_by = None
            while self.round_ended:
                self.check_round_end(self.round_ended.pop(0))
            self.check_recovery()
            if until is not None and until():
                return
            c = self.choose()
            if c is None:
                if not self.on_idle():
                    return
                continue
            self.steps += 1
            self.choices.append(c[1][0])
            if c[1] == "actor":
                self.step_actor(c[2])
            elif c[1] in ("kill", "faultkill"):
                self.poll_streak = 0
                if c[1] == "faultkill":
                    self.fault_budget -= 1
                    self.faults_injected.append(("node_kill", f"node{c[2]}", "random"))
                self.kill_node(c[2], why=c[1])
            else:
                self.poll_streak = 0
                self.start_batch(c[2])
            self.user_actions(u)

    def user_actions(self, u):
        if not u:
            return
        live_user = sum(1 for t, p in self.tops.items() if t.startswith("user") and t not in self.top_rc)
        if live_user >= 2 or not self.obs:
            return
        after_outage = self.scen.get("cancel_after_outage") and self.sq_budget <= 0 and not self.outage_freeze and any(f[0] == "squeue_fail" for f in self.faults_injected)
        if self.scen.get("cancel") and self.cancel_started is None and self.sbatches and (after_outage or self.rng.random() < self.scen["cancel"]):
            self.cancel_started = set(self.active_batches())
            self.cancel_cmd_step = self.steps
            self.rows_at_cancel = self._rows_on_disk()
            self.log("CANCEL_CMD active", sorted(self.cancel_started))
            extra = [] if self.scen.get("cancel_complete", True) else ["--no-complete"]
            self.spawn_top("usercancel", ["jade", "cancel-jobs", self.outname] + extra, self.scen.get("cancel_host", "login"))
            return
        w = self.scen.get("resub_in_completion_window")
        if w and not self.window_resub and self.obs and self.obs[-1]["complete"] and self.obs[-1]["submitter"] is not None and self.holder is not None and any(b.pid == self.holder[0] for b in self.actors.values()) and self.rng.random() < w:
            # the completing round has set the flag and still holds the role (it demotes last; in a pipeline it submits the
            # next stage in between): a user who sees "complete" runs resubmit-jobs right away.  It must not get the role.
            self.window_resub = True
            host = self.rng.choice(["login", "login2", self.holder[1]])
            self.log("RESUBMIT_IN_COMPLETION_WINDOW on", host, "holder", self.holder)
            self.park_pid = self.holder[0]  # the holder is slow to leave (reports, next pipeline stage): set aside at its next point outside the lock
            self.spawn_top("userresub_window", ["jade", "resubmit-jobs", self.outname], host)
            return
        p = u.get("p", 0.01)
        # endgame adversary: a user round promoted while batches are running jobs and nobody holds the role (the window in
        # which "no active batch" and "all results collected" must not be confused)
        if u.get("late_try") and self.user_done.get("late_try", 0) < u["late_try"] and self.obs and self.obs[-1]["submitter"] is None and not self.obs[-1]["complete"] and self.active_batches() and self.running_jobs and not any(t.startswith("user") and t not in self.top_rc for t in self.tops) and self.rng.random() < 0.08:
            self.user_done["late_try"] = self.user_done.get("late_try", 0) + 1
            self.spawn_top(f"userlate{self.user_done['late_try']}", ["jade", "try-submit-jobs", self.outname], self.rng.choice(["login", "login2"]))
            return
        if self.user_done["try_submit"] < u.get("try_submit", 0) and self.rng.random() < p:
            self.user_done["try_submit"] += 1
            host = self.rng.choice(["login", "login2"])
            self.spawn_top(f"usertry{self.user_done['try_submit']}", ["jade", "try-submit-jobs", self.outname], host)
        elif self.user_done["show_status"] < u.get("show_status", 0) and self.rng.random() < p:
            self.user_done["show_status"] += 1
            host = self.rng.choice(["login", "login2"])
            self.spawn_top(f"userstat{self.user_done['show_status']}", ["jade", "show-status", "-o", self.outname, "-n"] + (["-j"] if self.rng.random() < 0.5 else []), host)

    def check_recovery(self):
        rc = self.recover_check
        if rc and rc[0] in self.top_rc:
            o = self.observe("after recovery") or (self.obs[-1] if self.obs else None)
            made = len(self.sbatches) > rc[1]
            done = bool(o and o["complete"])
            hit_by_squeue = len(rc) > 2 and len(self.faults_injected) > rc[2] and all(str(f_[0]).startswith("squeue") for f_ in self.faults_injected[rc[2]:])
            if hit_by_squeue and not made and not done:
                self.recover_check = None  # the recovery command itself was hit by the (transient) scheduler-query failure: try again
                return
            if rc[0] not in self.top_promoted:
                # refused: another process held the role during this attempt; progress is that process's business
                self.refused_recoveries += 1
                self.recover_check = None
                if self.idle():
                    # refused although nobody is alive to finish a round: the role is held by a dead process
                    self.stuck = True
                    self.log("STUCK role held by a process that is gone", self.holder)
                return
            if not made and not done and self.ff_now:
                self.viol("C05", "recovery-no-progress", f"recovery round {rc[0]} (exit {self.top_rc[rc[0]]}) neither handed a batch to the HPC nor completed the submission")
            if not made and not done:
                if len(rc) > 2 and len(self.faults_injected) > rc[2] and all(str(f_[0]).startswith("squeue") for f_ in self.faults_injected[rc[2]:]):
                    pass  # this recovery round itself was hit by the (transient) scheduler-query failure: try again
                else:
                    self.stuck = True
            self.recover_check = None

    def on_idle(self):
        """No runnable actor, no sleeper.  Decide between 'done' and the documented recovery."""
        o = self.observe("idle")
        last = o or (self.obs[-1] if self.obs else None)
        if last is None or self.scen.get("mode") == "local":
            return False
        if o is None:
            # status unreadable (marker left behind): nothing more can be decided through the API
            lock = os.path.join(self.out, "cluster_config.json.lock")
            if os.path.exists(lock):
                self.stuck = True
                if self.recoveries >= (2 if not self.ff else 1):
                    return False
        if last["complete"] and o is not None:
            n_re = self.scen.get("resubmit_after_cancel", 0)
            if n_re and last["canceled"] and self.resub_after_cancel < n_re and not self.active_batches():
                # the user changes their mind: the canceled (and completed) submission is resubmitted, then looked at again.
                # Cancel is final: whatever the command does, no batch may be handed to the HPC.  `--no-failed` selects only
                # the jobs that never ran, so no recorded result is pruned by the user's own request.
                self.resub_after_cancel += 1
                rows = self._rows_on_disk()
                if self.rows_at_cancel and not self.rows_unknown:
                    for name in self.rows_at_cancel:
                        if name not in rows:
                            self.viol("C14", "row-lost-after-cancel", f"result of {name} recorded before cancel is gone")
                # from here on the user's own request prunes the results of the jobs that never ran *and of their dependents*
                from . import model as _model

                closure = _model.dependents_closure(self.scen["jobs"], {n for n in self.jobs if n not in rows})
                self.rows_at_cancel = {n: v for n, v in (self.rows_at_cancel or {}).items() if n not in closure} if isinstance(self.rows_at_cancel, dict) else [n for n in (self.rows_at_cancel or []) if n not in closure]
                self.epoch += 1
                self.epoch_transition = True
                self.spawn_top(f"userresub{self.resub_after_cancel}", ["jade", "resubmit-jobs", self.outname, "--no-failed"], self.rng.choice(["login", "login2"]))
                self.after_resub_try = 2
                return True
            if self.after_resub_try and last["canceled"]:
                self.after_resub_try -= 1
                self.spawn_top(f"userafter{self.resub_after_cancel}_{self.after_resub_try}", ["jade", "try-submit-jobs", self.outname] if self.after_resub_try else ["jade", "show-status", "-o", self.outname, "-n"], "login")
                return True
            return False
        if self.active_batches():
            raise Inconclusive("no runnable actor but batches are active")
        if self.scen.get("dry_run") or self.scen.get("no_recovery"):
            return False
        if self.stuck:
            return False
        bound = len(self.jobs) + len(self.batches) + 2
        if self.recoveries >= bound:
            if self.ff_now:
                self.viol("C05", "recovery-bound", f"submission not complete after {self.recoveries} recovery rounds")
            self.stuck = True
            return False
        if not self.ff and self.recoveries >= (self.scen.get("faults") or {}).get("max_recoveries", bound):
            self.stuck = True
            return False
        self.recoveries += 1
        tag = f"recover{self.epoch}_{self.recoveries}"
        use_status = self.rng.random() < 0.25 if (self.scen.get("policy") or {}).get("kind") != "det" else False
        host = "login" if self.ff else self.rng.choice(["login", "login", "login2"])
        if use_status and self.rng.random() < 0.5:
            # show-status offers the recovery at a prompt; the user accepts (after a typo, sometimes)
            self.prompted_recoveries += 1
            self.spawn_top(tag, ["jade", "show-status", "-o", self.outname], host, stdin_text=self.rng.choice(["y\n", "Y\n", "maybe\ny\n"]))
        elif use_status:
            self.spawn_top(tag, ["jade", "show-status", "-o", self.outname, "-n"], host)
        else:
            self.spawn_top(tag, ["jade", "try-submit-jobs", self.outname], host)
        self.recover_check = (tag, len(self.sbatches), len(self.faults_injected))
        return True

    # ------------------------------------------------------------------ entry points
    def run(self):
        os.chdir(self.root)
        mode = self.scen.get("mode")
        argv = ["jade", "submit-jobs", "config.json", "-o", self.outname]
        if mode == "local":
            argv.append("--local") if self.scen.get("force_local") else None
        if self.scen.get("cli_params"):
            from . import scenario as _sc

            argv += _sc.cli_options(self.scen)
        self.spawn_top("submit", argv, "login")
        if self.scen.get("double_submit"):
            self.settle()
            self.spawn_top("submit2", argv, "login2")
        try:
            self.drive()
            if self.scen.get("double_submit") and self.top_rc.get("submit") == 0 and self.top_rc.get("submit2") == 0:
                self.viol("C10", "double-submit-both-accepted", "two submit-jobs commands started at once for one new output directory both exited 0")
            if not self.obs and self.top_rc.get("submit") not in (0, None) and not self.scen.get("expect_reject") and mode != "local" and not self.faults_injected:
                try:
                    tail = open(os.path.join(self.root, "top_submit.log")).read()[-400:]
                except OSError:
                    tail = ""
                return self.result("harness: submit-jobs rejected the generated scenario: " + tail)
            if self.scen.get("resubmit"):
                self.do_resubmit()
            self.final_checks()
            err = None
        except Inconclusive as e:
            err = f"inconclusive: {e}"
        return self.result(err)

    def do_resubmit(self):
        pass

    # ------------------------------------------------------------------ final oracles
    def classify(self, r):
        return "successful" if r.is_successful() else "failed" if r.is_failed() else "canceled" if r.is_canceled() else "?"

    def final_checks(self):
        scen = self.scen
        ep = self.epoch
        # C01 multisets (per epoch)
        placed = {}
        for s in self.sbatches:
            if s["epoch"] != ep:
                continue
            for j in s["jobs"]:
                placed.setdefault(j, []).append(s["script"])
        for j, l in placed.items():
            if len(l) > 1:
                self.viol("C01", "double-placement", f"job {j} handed to the HPC in {len(l)} batches: {l}")
        scripts = [s["script"] for s in self.sbatches]
        if len(scripts) != len(set(scripts)):
            self.viol("C01", "batch-id-reused", f"batch identifier handed to sbatch twice: {sorted(x for x in set(scripts) if scripts.count(x) > 1)}")
        last = self.obs[-1] if self.obs else None
        complete = bool(last and last["complete"])
        self.complete = complete
        local = scen.get("mode") == "local"
        if self.cancel_started is not None:
            self.final_cancel(complete)
        if scen.get("dry_run"):
            return
        if local:
            complete = os.path.exists(os.path.join(self.out, "results.json"))
            self.complete = complete
        from jade.result import ResultsSummary

        final = None
        missing = None
        if os.path.exists(os.path.join(self.out, "results.json")):
            try:
                rs = ResultsSummary(self.outname)
                final = {}
                for r in rs.list_results():
                    if r.name in final:
                        self.viol("C03", "duplicate-result", f"two results for {r.name}")
                    final[r.name] = (self.classify(r), r.return_code, r.hpc_job_id)
                missing = list(rs.missing_jobs)
                self.summary = rs._results.get("results_summary")
            except Exception as e:
                self.viol("C03", "results-unreadable", f"results.json cannot be read through ResultsSummary: {e!r}")
        self.final = final
        self.missing = missing
        canceled_run = self.cancel_started is not None and last and last["canceled"]
        only_squeue = bool(self.faults_injected) and all(str(f_[0]).startswith("squeue") for f_ in self.faults_injected)
        if scen.get("c11") and only_squeue:
            n0 = len(self.violations)
            self.final_ff(final, missing, complete, placed)
            for v in self.violations[n0:]:
                v["text"] = f"after a transient squeue failure ({self.faults_injected[0][-1]}; {len(self.faults_injected)} failed calls): [{v['prop']}:{v['key']}] {v['text']}"
                v["prop"], v["key"] = "C11", "squeue-failure-not-transient"
        elif self.ff_now and not canceled_run and not scen.get("cycle") and self.cancel_started is None:
            if "userresub_window" in self.top_promoted:
                pass  # the holder had already left: an ordinary resubmission followed, which this campaign has no reference model for (C13 does)
            else:
                self.final_ff(final, missing, complete, placed)
        elif not self.ff or scen.get("cycle") or (not self.ff_now and self.cancel_started is None):
            self.final_faulty(final, missing, complete)
        if final is not None and missing is not None and not self.status_faults:
            self.final_tally(final, missing)
        self.final_hooks(complete)
        if scen.get("check_events") and complete:
            self.final_events()

    def final_events(self):
        """C20a on the events that the real JADE processes of this run wrote: every line of every *events.log file must be in
        the consolidated summary exactly once, ordered by time within its name, and consolidating again must not change it."""
        import glob as _g

        raw = {}
        nlines = 0
        for f in _g.glob(os.path.join(_g.escape(self.out), "*events.log")):
            try:
                for line in open(f):
                    if not line.strip():
                        continue
                    rec = json.loads(line)
                    nlines += 1
                    raw.setdefault(rec["name"], []).append(json.dumps([rec.get("timestamp"), rec.get("source"), rec.get("category"), rec.get("message"), rec.get("data")], sort_keys=True))
            except (OSError, ValueError) as e:
                self.viol("C20", "event-file-unreadable", f"{os.path.basename(f)}: {e!r}")
                return
        # ground truth beyond the files: the events that the jobs of this run handed to their (open) event log
        truth = []
        if self.job_events_written and self.ff and not self.faults_injected and not any(b.get("killed") or b.get("cancelled") for b in self.batches.values()) and not self.scen.get("cancel"):
            for line in self.job_events_written:
                rec = json.loads(line)
                truth.append((rec["source"], json.dumps([rec.get("timestamp"), rec.get("source"), rec.get("category"), rec.get("message"), rec.get("data")], sort_keys=True)))
                raw.setdefault(rec["name"], [])
        if not nlines and not truth:
            return
        from jade.events import EventsSummary

        stats_names = EventsSummary.RESOURCE_STATS  # consolidated into <name>.parquet: one row per sample with timestamp, source and the data fields

        def collect():
            es = EventsSummary(self.outname)
            out = {name: [(ev.timestamp, json.dumps([ev.timestamp, ev.source, ev.category, ev.message, ev.data], sort_keys=True)) for ev in es.list_events(name)] for name in raw if name not in stats_names}
            for name in raw:
                if name in stats_names:
                    df = es.get_dataframe(name)
                    out[name] = [(str(ts), json.dumps([str(ts), row.get("source"), {k: v for k, v in row.items() if k != "source"}], sort_keys=True)) for ts, row in ((i, r.to_dict()) for i, r in df.iterrows())]
            return out

        try:
            first = collect()
            second = collect()
        except Exception as e:
            self.viol("C20", "summary-crashed", f"EventsSummary raised {e!r} on the {nlines} events of this run")
            return
        snap = self.ev_consolidation_snapshot  # the logs as they were when the last consolidating process started reading them (None: unknown)
        snap3 = None if snap is None else {json.dumps([json.loads(l)[0], json.loads(l)[1], json.loads(l)[4]], sort_keys=True) for l in snap}

        def late_only(missing_lines, sn):
            """Are all the missing events ones that reached the logs only after JADE had consolidated the summary?"""
            return sn is not None and missing_lines and all(l not in sn for l in missing_lines)

        for name, lines in raw.items():
            sn = snap
            if name in stats_names:  # same comparison over the fields a resource sample has in the parquet file
                lines = [json.dumps([json.loads(l)[0], json.loads(l)[1], json.loads(l)[4]], sort_keys=True) for l in lines]
                self.stat_samples_checked = getattr(self, "stat_samples_checked", 0) + len(lines)
                sn = snap3
            got = [x[1] for x in first.get(name, [])]
            if sorted(got) != sorted(lines):
                rest = list(got)
                missing_lines = []
                for l in lines:
                    if l in rest:
                        rest.remove(l)
                    else:
                        missing_lines.append(l)
                if not rest and late_only(missing_lines, sn):
                    self.viol("C20", "event-after-consolidation", f"event name {name!r}: {len(missing_lines)} of {len(lines)} events reached the event logs after a completing round had consolidated the summary (another node was still finishing) and are not in it")
                else:
                    self.viol("C20", "event-multiset", f"event name {name!r}: {len(lines)} written by the run's processes, {len(got)} in the consolidated summary")
            ts = [x[0] for x in first.get(name, [])]
            if ts != sorted(ts):
                self.viol("C20", "event-order", f"event name {name!r}: not ordered by time in the consolidated summary")
        if truth:
            truth = [(s_, l) for s_, l in truth if json.loads(l)[2] == "job"]
            got = [x[1] for x in first.get("probe_job", [])]
            lost = sorted({src for src, l in truth if got.count(l) == 0})
            dup = sorted({src for src, l in truth if got.count(l) > 1})
            lost_lines = [l for s_, l in truth if got.count(l) == 0]
            if lost and late_only(lost_lines, snap):
                self.viol("C20", "event-after-consolidation", f"events logged by jobs {lost} reached the output directory after a completing round had consolidated the summary and are not in it: {len(lost_lines)} of {len(truth)}")
            elif lost:
                self.viol("C20", "job-event-lost", f"events logged by jobs {lost} (to their own events.log, kept open while they ran) are not in the consolidated summary: {len([1 for s_, l in truth if got.count(l) == 0])} of {len(truth)}")
            if dup:
                self.viol("C20", "job-event-duplicated", f"events logged by jobs {dup} appear more than once in the consolidated summary")
            self.job_events_checked = len(truth)
        if first != second:
            self.viol("C20", "not-idempotent", "consolidating the events of this run again changed the summary")
        self.events_checked = nlines

    def final_hooks(self, complete):
        h = self.hooks_cfg()
        if not any(h.get(k) for k in ("setup", "teardown", "nsetup", "nteardown")):
            return
        seen = self.hooks_seen
        V = lambda key, text: self.viol("C16", key, text)
        if h.get("setup"):
            n = sum(1 for x in seen if x["kind"] == "setup")
            if n != 1:
                V("setup-count", f"setup command ran {n} times")
        if h.get("teardown") and complete:
            n = sum(1 for x in seen if x["kind"] == "teardown" and x["epoch"] == self.epoch)
            if n != 1:
                V("teardown-count", f"teardown command ran {n} times for one completion")
        local = self.scen.get("mode") == "local"
        nodes = [None] if local else [str(bid) for bid, b in self.batches.items() if b["state"] == "DONE" and b["seen"] and not b.get("killed") and not b.get("cancelled")]
        for node in nodes:
            for kind in ("nsetup", "nteardown"):
                if h.get(kind):
                    n = sum(1 for x in seen if x["kind"] == kind and x["node"] == node)
                    if n != 1 and (complete or not local):
                        V(f"{kind}-count", f"{kind} ran {n} times for the batch on node {node}")
        if self.ff and self.cancel_started is None:
            bad = [v for v in self.violations if (v["prop"], v["key"]) in (("C03", "no-result"), ("C03", "missing-jobs"), ("C05", "not-complete"), ("C03", "no-results-file"))]
            if bad:
                V("results-not-recorded", f"with lifecycle commands {sorted(k for k in h if h.get(k) and k != 'rc')} configured: {bad[0]['text']}")

    def final_tally(self, final, missing):
        s = getattr(self, "summary", None)
        if not s:
            return
        cls = [v[0] for v in final.values()]
        exp = {"num_successful": cls.count("successful"), "num_failed": cls.count("failed"), "num_canceled": cls.count("canceled"), "num_missing": len(missing)}
        if {k: s.get(k) for k in exp} != exp:
            self.viol("C20", "summary-tally", f"results summary {s} != counted {exp}")
        if sum(exp.values()) != len(self.jobs) or set(final) & set(missing):
            self.viol("C20", "summary-partition", f"summary does not partition the {len(self.jobs)} jobs: {exp}, overlap {sorted(set(final) & set(missing))}")

    def final_ff(self, final, missing, complete, placed):
        scen = self.scen
        mdl = model.evaluate(scen["jobs"]) if not (self.resub and self.epoch > 0) else self.resub["model2"]
        self.model = mdl
        if not complete:
            self.viol("C05", "not-complete", f"fault-free run ended incomplete after {self.recoveries} recovery rounds (stuck={self.stuck})")
        if final is None:
            if complete:
                self.viol("C03", "no-results-file", "submission complete but results.json is missing")
            elif not (self.resub and self.epoch > 0) and not self.rows_unknown:
                # the fault-free run has stopped for good (no process left, documented recovery exhausted) without completing.
                # C04 speaks about every job whose blockers have outcomes, whether or not the submission got to its summary.
                rows = self._rows_on_disk()
                for name, (cls, rc) in mdl.items():
                    bl = self.jobs[name]["blocked_by"]
                    if name in rows or not all(b in rows for b in bl):
                        continue
                    nl = len(self.launches.get(name, []))
                    if cls == "canceled":
                        self.viol("C04", "canceled-result-missing", f"{name} is flagged and a blocker failed or was canceled, all its blockers have outcomes, but the run ended without a 'canceled' result for it (started {nl} times)")
                    elif nl == 0:
                        self.viol("C04", "job-not-started-once", f"{name} should run (all its blockers {sorted(bl)} have outcomes on disk) but the fault-free run ended, incomplete, without ever starting it")
            return
        if missing:
            self.viol("C03", "missing-jobs", f"fault-free completed submission reports missing jobs {missing}")
        ep = self.epoch
        for name, (cls, rc) in mdl.items():
            nl = len([l for l in self.launches.get(name, []) if l["epoch"] == ep])
            rerun = not (self.resub and ep > 0) or name in self.resub["selected"]
            if name not in final:
                self.viol("C03", "no-result", f"no result for {name}")
                if cls == "canceled":
                    self.viol("C04", "canceled-result-missing", f"{name} is flagged and a blocker failed or was canceled, but it has no 'canceled' result (started {nl} times)")
                elif rerun and nl != 1:
                    self.viol("C04", "job-not-started-once", f"{name} should run exactly once (its blockers have outcomes by the model), was started {nl} times and has no result")
                continue
            got = final[name]
            if got[0] != cls:
                prop = "C04" if "canceled" in (got[0], cls) else "C03"
                self.viol(prop, "wrong-class", f"{name}: result says {got[0]} (rc {got[1]}), dependency-order evaluation says {cls}")
            elif cls != "canceled" and got[1] != rc:
                self.viol("C03", "wrong-return-code", f"{name}: recorded return code {got[1]} != real exit code {rc}")
            if cls == "canceled" and got[0] == "canceled" and got[1] == 0:
                self.viol("C04", "canceled-rc-zero", f"{name}: canceled result with return code 0")
            if rerun:
                if cls == "canceled" and nl:
                    self.viol("C04", "canceled-job-started", f"{name} is canceled by the model but its command was started {nl} times")
                if cls != "canceled" and nl != 1:
                    self.viol("C04", "job-not-started-once", f"{name} should run exactly once, was started {nl} times")
                if complete and not scen.get("mode") == "local":
                    np_ = len(placed.get(name, []))
                    if not (np_ == 1 or (cls == "canceled" and nl == 0 and np_ == 0)):
                        # a canceled job may legitimately have been placed (canceled on the node) or not (canceled by a submitter)
                        if not (cls == "canceled" and np_ == 1):
                            self.viol("C01", "placement-completeness", f"{name}: placed in {np_} batches, class {cls}, started {nl}")
            elif nl:
                self.viol("C13", "unselected-job-rerun", f"{name} was not selected for resubmission but was started again")
        # who canceled: node or submitter
        self.cancel_sites = {"node": 0, "submitter": 0}
        for name, got in final.items():
            if got[0] == "canceled":
                self.cancel_sites["submitter" if got[2] in (None, "None", "") else "node"] += 1

    def final_faulty(self, final, missing, complete):
        """C12 accounting under lost batches / killed nodes / cycles; C11 retention."""
        rows = self.rows_on_disk()
        if not self.rows_unknown:
            for name, vals in self.rows_ever.items():
                have = {(x[0], x[1]) for x in rows.get(name, [])}
                for (rc, st, ep) in vals:
                    if ep == self.epoch and (rc, st) not in have:
                        self.viol("C11", "result-lost", f"result of {name} ({rc},{st}) was on disk earlier and is gone")
                        break
        self.complete = complete
        if not complete and not self.status_faults and self.scen.get("mode") != "local":
            dead = []
            live = {a.pid for a in self.actors.values()}
            for lf in glob.glob(os.path.join(glob.escape(self.out), "results", "*.lock")) + glob.glob(os.path.join(glob.escape(self.out), "processed_results.csv.lock")):
                try:
                    first = open(lf).readline().strip()
                    if first and int(first) not in live:
                        dead.append(os.path.basename(lf))
                except (OSError, ValueError):
                    dead.append(os.path.basename(lf))
            if dead:
                self.viol("C12", "dead-node-results-lock", f"node killed while holding {dead}: the marker names a process on another host, nobody ever breaks it, every later collector times out and the submission never completes")
            else:
                self.viol("C12", "not-complete-after-faults", f"submission did not reach completion after {self.recoveries} documented recovery rounds (faults: {self.faults_injected[:3]})")
        if final is None:
            if complete:
                self.viol("C12", "no-results-file", "submission complete but results.json missing")
            return
        if not complete:
            return
        exp_missing = sorted(set(self.jobs) - set(final))
        if sorted(missing) != exp_missing:
            self.viol("C12", "missing-list", f"missing_jobs {sorted(missing)} != configured-minus-results {exp_missing}")
        fin = {}
        for name, l in self.finished.items():
            for rc, ep in l:
                if ep == self.epoch:
                    fin.setdefault(name, []).append(rc)
        for name, (cls, rc, _hid) in final.items():
            if cls in ("successful", "failed"):
                if name not in fin or rc not in fin[name]:
                    self.viol("C12", "fabricated-result", f"{name}: result {cls} rc={rc} but its process exited with {fin.get(name)}")
            elif cls == "canceled":
                ok = self.jobs[name]["flag"] and any(final.get(b, ("", 0, None))[0] in ("failed", "canceled") for b in self.jobs[name]["blocked_by"])
                if not ok:
                    self.viol("C12", "unjustified-cancel", f"{name} canceled although not flagged or no blocker failed")
        for name, ls in self.launches.items():
            for b in self.jobs[name]["blocked_by"]:
                if b not in final and any(l["epoch"] == self.epoch for l in ls):
                    self.viol("C12", "started-with-missing-blocker", f"{name} was started although its blocker {b} has no result")
        # a result that is on disk when the submission is declared complete must be in the final results
        if not self.rows_unknown:
            for name in rows:
                if name in self.jobs and name not in final:
                    self.viol("C12", "recorded-result-reported-missing", f"{name} has a recorded result ({rows[name][0][:2]} in {rows[name][0][3]}) but the completed submission reports it as missing")
        # jobs that really finished on a node that was not killed keep their result
        for name, rcs in fin.items():
            if (self.scen.get("faults") or {}).get("unstartable_command"):
                break  # the runner of that batch died of its own exception: its running jobs are lost like those of a killed node
            if name not in final and name not in self.killed_jobs:
                node_killed = any(self.batches.get(int(l["node"]), {}).get("killed") for l in self.launches.get(name, []) if l["node"] and l["node"].isdigit())
                if not node_killed:
                    self.viol("C12", "finished-job-dropped", f"{name} exited with {rcs} on a healthy node but has no result")

    def final_cancel(self, complete):
        last = self.obs[-1] if self.obs else None
        if not (last and last["canceled"]):
            # cancel-jobs obtained the role on an incomplete submission and nothing was injected into it (a scancel that fails
            # because the batch is already gone is an answer of the scheduler, not a fault): it has to mark the submission canceled
            if last and self.cancel_ids_at_promotion is not None and not getattr(self, "cancel_complete_at_promotion", True) and "usercancel" in self.top_rc and all(str(f[0]).startswith("squeue") for f in self.faults_injected) and not (
                glob.glob(os.path.join(glob.escape(self.out), "*.lock")) + glob.glob(os.path.join(glob.escape(self.out), "results", "*.lock"))
            ):  # (a lock marker left behind by a node that scancel killed inside a lock hold is the known hazard of C12, not this)
                unasked = [b for b in getattr(self, "cancel_truth_at_promotion", []) if b not in self.scancelled]
                self.viol("C14", "cancel-without-effect", f"cancel-jobs obtained the submitter role (exit {self.top_rc.get('usercancel')}) but the submission was never marked canceled; active batches never asked to be canceled: {unasked}; role now held by {last['submitter']}")
            return
        rows = self._rows_on_disk()
        if self.rows_at_cancel and not self.rows_unknown:
            for name in self.rows_at_cancel:
                if name not in rows:
                    self.viol("C14", "row-lost-after-cancel", f"result of {name} recorded before cancel is gone")
        ids = self.cancel_ids_at_promotion
        if ids is not None:
            for i in ids:
                if int(i) not in self.scancelled:
                    self.viol("C14", "active-batch-not-cancelled", f"batch {i} was active when cancel-jobs was promoted but received no scancel")
            # the same against the scheduler's own books: a batch JADE has lost track of is still a batch that was active
            for b in getattr(self, "cancel_truth_at_promotion", []):
                if b not in self.scancelled and str(b) not in [str(x) for x in ids]:
                    self.viol("C14", "active-batch-not-cancelled", f"batch {b} was queued or running in the scheduler when cancel-jobs was promoted (JADE's recorded ids: {ids}) but received no scancel")
        if complete and os.path.exists(os.path.join(self.out, "results.json")):
            try:
                from jade.result import ResultsSummary

                rs = ResultsSummary(self.outname)
                have = {r.name for r in rs.list_results()}
                miss = set(rs.missing_jobs)
                never = {n for n in self.jobs if n not in have}
                if never != miss:
                    self.viol("C14", "never-run-not-missing", f"jobs without result {sorted(never)} != reported missing {sorted(miss)}")
            except Exception as e:
                self.viol("C14", "results-unreadable", repr(e))

    # ------------------------------------------------------------------ result
    def result(self, err=None):
        if self.live_lock_breaks and not err:
            err = "inconclusive: the lock library detached the marker of a live lock holder (its stale-lock break raced); nothing after that is attributable to JADE"
        nbatches = len(self.sbatches)
        edges_cross = edges_in = 0
        where = {}
        for s in self.sbatches:
            for j in s["jobs"]:
                where[j] = s["id"]
        for j in self.scen["jobs"]:
            for b in j["blocked_by"]:
                if j["name"] in where and b in where:
                    if where[j["name"]] == where[b]:
                        edges_in += 1
                    else:
                        edges_cross += 1
        res = {
            "violations": self.violations,
            "notes": self.notes[:10],
            "error": err,
            "steps": self.steps,
            "switches": self.switches,
            "vnow": round(self.vnow, 1),
            "wall": round(time.time() - self.t0, 2),
            "batches": len(self.batches),
            "sbatches": nbatches,
            "squeues": self.squeues,
            "obs": len(self.obs),
            "obs_skipped": self.obs_skipped,
            "obs_unreadable": self.obs_unreadable,
            "recoveries": self.recoveries,
            "launches": sum(len(v) for v in self.launches.values()),
            "max_live": max(self.max_live.values(), default=0),
            "max_live_by_node": self.max_live,
            "max_active": self.max_active,
            "complete": bool(getattr(self, "complete", False)),
            "stuck": self.stuck,
            "rounds": len(self.sub_ord),
            "round_hosts": sorted(h for h in self.round_hosts if h),
            "promoted_rounds": self.promoted_rounds,
            "refused_rounds": self.refused_rounds,
            "lazy_checked": self.lazy_checked,
            "lazy_ready_seen": self.lazy_ready_seen,
            "lazy_justified": self.lazy_justified,
            "faults": [list(map(str, f)) for f in self.faults_injected],
            "sub_steps": self.sub_steps and {self.sub_ord[p]: n for p, n in self.sub_steps.items()},
            "run_steps": self.run_steps and {self.run_ord[p]: n for p, n in self.run_steps.items()},
            "sub_classes": {k: v for k, v in self.sub_classes.items()},
            "run_classes": {k: v for k, v in self.run_classes.items()},
            "hooks": len(self.hooks_seen),
            "hook_kinds": sorted({h["kind"] for h in self.hooks_seen}),
            "edges_cross": edges_cross,
            "edges_in": edges_in,
            "cancel_sites": getattr(self, "cancel_sites", None),
            "time_jumps": self.time_jumps,
            "parks": self.parks,
            "job_events_checked": getattr(self, "job_events_checked", 0),
            "stat_samples_checked": getattr(self, "stat_samples_checked", 0),
            "live_lock_breaks": self.live_lock_breaks,
            "events_checked": getattr(self, "events_checked", 0),
            "endgame_stalled_at": str(self.eg.get("at")) if self.eg and self.eg.get("at") else None,
            "inner_evals": sum(self.inner_evals.values()),
            "inner_failures": [list(map(str, f)) for f in self.inner_failures[:5]],
            "inner_failure_count": len(self.inner_failures),
            "nshared": self.nshared,
            "sig": self.sig.hexdigest()[:16],
            "sig_items": self.sig_items if self.scen.get("sig_list") else None,
            "epochs": self.epoch + 1,
            "killed_nodes": sum(1 for b in self.batches.values() if b.get("killed")),
            "resub_after_cancel": self.resub_after_cancel,
            "window_resub": bool(self.window_resub),
            "slow_results_holder_stalled": bool(self.srh is not None and self.time_jumps > self.srh_jump0),
            "scancel_failures": getattr(self, "scancel_failures", 0),
            "prompted_recoveries": self.prompted_recoveries,
            "window_resub_rc": self.top_rc.get("userresub_window"),
            "scancels": len(self.scancelled),
            "canceled": self.canceled_visible_step is not None,
            "cancel_unsubmitted": getattr(self, "cancel_unsubmitted", 0),
            "cancel_active": getattr(self, "cancel_active", 0),
            "sbatch_after_cancel_cmd": sum(1 for x in self.sbatches if self.cancel_cmd_step is not None and x["step"] > self.cancel_cmd_step),
            "final_classes": {n: v[0] for n, v in (getattr(self, "final", None) or {}).items()},
            "missing": getattr(self, "missing", None),
        }
        return res

    def close(self):
        for a in list(self.actors.values()):
            try:
                if a.pid:
                    os.kill(a.pid, 9)
            except Exception:
                pass
        for b in self.batches.values():
            if b["proc"] is not None and b["proc"].poll() is None:
                try:
                    os.killpg(b["proc"].pid, 9)
                except Exception:
                    pass
                try:
                    b["proc"].wait(timeout=5)
                except Exception:
                    pass
        for p in self.tops.values():
            if p.poll() is None:
                try:
                    os.killpg(p.pid, 9)
                except Exception:
                    pass
                try:
                    p.wait(timeout=5)
                except Exception:
                    pass
        try:
            self.sel.close()
        except Exception:
            pass
        self.srv.close()
        for a in list(self.actors.values()):
            try:
                a.conn.close()
            except Exception:
                pass
