"""Fork server: imports the JADE CLI once from the repository's *current working tree* and forks one
child per `jade` / `jade-internal` invocation (request = argv, environment, cwd, stdio descriptors).

The child applies the request's environment, activates the simulation agent with its own identity and
runs the real click command.  5 ms per JADE process instead of ~1 s of imports.
"""
import json
import logging
import os
import selectors
import signal
import socket
import sys

import vsim_agent  # installed (inactive) by sitecustomize because VSIM_ZYGOTE is set

from jade.cli.jade import cli as jade_cli
from jade.cli.jade_internal import cli as jade_internal_cli

try:
    _attached = vsim_agent.attach_inner_monitors()
except Exception as _e:  # advisory only
    _attached = [f"(inner monitors not attached: {_e!r})"]
print("inner monitors:", _attached, flush=True)

ZSOCK = sys.argv[1]
COV_DIR = os.environ.get("VERIF_COV_DIR")  # tools/covmap.py: which lines of jade the campaign's processes executed
if os.path.exists(ZSOCK):
    os.remove(ZSOCK)
try:  # the fork server ends with the check that started it
    import ctypes

    ctypes.CDLL("libc.so.6", use_errno=True).prctl(1, signal.SIGKILL)  # PR_SET_PDEATHSIG
except Exception:
    pass
srv = socket.socket(socket.AF_UNIX, socket.SOCK_STREAM)
srv.bind(ZSOCK)
srv.listen(256)
children = {}
sel = selectors.DefaultSelector()
sel.register(srv, selectors.EVENT_READ)
rfd, wfd = os.pipe()
os.set_blocking(wfd, False)
signal.set_wakeup_fd(wfd)
signal.signal(signal.SIGCHLD, lambda *a: None)
sel.register(rfd, selectors.EVENT_READ)
print("zygote ready", flush=True)


def run_child(conn, req, fds):
    signal.set_wakeup_fd(-1)
    signal.signal(signal.SIGCHLD, signal.SIG_DFL)
    srv.close()
    conn.close()
    os.close(rfd)
    os.close(wfd)
    for c in children.values():
        try:
            c.close()
        except OSError:
            pass
    for i, fd in enumerate(fds):
        os.dup2(fd, i)
    for fd in fds:
        if fd > 2:
            os.close(fd)
    os.environ.clear()
    os.environ.update(req["env"])
    os.environ["VSIM_LPPID"] = str(req["lppid"])
    os.chdir(req["cwd"])
    sys.argv = [req["prog"]] + req["args"]
    os.setpgid(0, 0)
    code = 0
    cov = None
    if COV_DIR:
        try:
            import coverage

            os.environ.setdefault("COVERAGE_CORE", "sysmon")
            cov = coverage.Coverage(data_file=os.path.join(COV_DIR, "cov"), data_suffix=True, source_pkgs=["jade"], messages=False)
            cov.start()
        except Exception:
            cov = None
    try:
        vsim_agent.activate(role="py", extra={"via": req["shim_pid"]})
        if req["prog"] == "vpy":
            # component actor: run a harness script inside the pre-imported interpreter
            import runpy

            sys.argv = list(req["args"])
            runpy.run_path(req["args"][0], run_name="__main__")
        else:
            cli = jade_cli if req["prog"] == "jade" else jade_internal_cli
            cli.main(args=req["args"], prog_name=req["prog"], standalone_mode=True)
    except SystemExit as e:
        code = e.code if isinstance(e.code, int) else (0 if e.code is None else 1)
    except BaseException:
        import traceback

        traceback.print_exc()
        code = 1
    finally:
        if cov is not None:
            try:
                cov.stop()
                cov.save()
            except Exception:
                pass
        try:
            logging.shutdown()
            sys.stdout.flush()
            sys.stderr.flush()
        except Exception:
            pass
        os._exit(code)


while True:
    for key, _ in sel.select():
        if key.fileobj is srv:
            conn, _ = srv.accept()
            try:
                msg, fds, _f, _a = socket.recv_fds(conn, 1 << 20, 3)
                req = json.loads(msg)
            except Exception:
                conn.close()
                continue
            pid = os.fork()
            if pid == 0:
                run_child(conn, req, fds)
            for fd in fds:
                os.close(fd)
            children[pid] = conn
        elif key.fileobj == rfd:
            os.read(rfd, 4096)
            while True:
                try:
                    pid, st = os.waitpid(-1, os.WNOHANG)
                except ChildProcessError:
                    break
                if pid == 0:
                    break
                conn = children.pop(pid, None)
                if conn:
                    try:
                        conn.send(json.dumps({"st": st}).encode())
                    except OSError:
                        pass
                    conn.close()
