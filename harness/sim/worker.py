"""Long-lived campaign worker: reads one JSON task per line on stdin, writes one JSON result per line."""
import importlib
import json
import logging
import os
import shutil
import sys
import traceback

proto = os.fdopen(os.dup(1), "w")
os.dup2(2, 1)
sys.stdout = sys.stderr
logging.disable(logging.CRITICAL)

CTX = json.loads(os.environ["VERIF_CTX"])
WID = os.environ.get("VERIF_WORKER", "0")
WDIR = os.path.join(CTX["base"], f"w{WID}")
os.makedirs(WDIR, exist_ok=True)


def run_sim(args):
    from sim import driver, scenario

    scen = args["scen"]
    seed = args["seed"]
    root = os.path.join(WDIR, f"s{args.get('id', 0)}")
    shutil.rmtree(root, ignore_errors=True)
    os.makedirs(os.path.join(root, "home"))
    cls = driver.Sim
    if args.get("cls"):
        mod, name = args["cls"].split(":")
        cls = getattr(importlib.import_module(mod), name)
    sim = None
    try:
        if args.get("prepare"):
            mod, name = args["prepare"].split(":")
            getattr(importlib.import_module(mod), name)(scen, root, CTX)
        else:
            scenario.write_config(scen, root, CTX["registry"])
        sim = cls(root, scen, seed, CTX, verbose=bool(args.get("verbose")))
        res = sim.run()
    except Exception as e:
        res = {"error": "harness: " + repr(e) + " " + traceback.format_exc()[-1500:], "violations": sim.violations if sim else []}
    finally:
        if sim is not None:
            sim.close()
        os.chdir(WDIR)
    if sim is not None and (args.get("trace") or res.get("violations") or (res.get("error") and args.get("trace_on_error"))):
        res["trace_tail"] = [list(map(str, t)) for t in sim.trace[-args.get("trace_n", 120):]]
        res["choices"] = "".join(sim.choices)[-4000:]
    if args.get("keep"):
        dst = args["keep"] if isinstance(args["keep"], str) else root + ".kept"
        shutil.rmtree(dst, ignore_errors=True)
        try:
            os.remove(os.path.join(root, "v.sock"))
        except OSError:
            pass
        shutil.move(root, dst)
        res["root"] = dst
    else:
        shutil.rmtree(root, ignore_errors=True)
    return res


def die_with_parent():
    """A worker must never outlive the check that started it (a killed check once left eight workers spinning for hours)."""
    try:
        import ctypes
        import signal

        ctypes.CDLL("libc.so.6", use_errno=True).prctl(1, signal.SIGKILL)  # PR_SET_PDEATHSIG
        if os.getppid() == 1:
            os._exit(0)
    except Exception:
        pass


def main():
    die_with_parent()
    for line in sys.stdin:
        line = line.strip()
        if not line:
            continue
        task = json.loads(line)
        try:
            if task["fn"] == "sim":
                res = run_sim(task["args"])
            else:
                mod, name = task["fn"].split(":")
                res = getattr(importlib.import_module(mod), name)(task["args"], CTX, WDIR)
        except BaseException as e:
            res = {"error": "harness: " + repr(e) + " " + traceback.format_exc()[-1500:], "violations": []}
        proto.write(json.dumps(res, default=str) + "\n")
        proto.flush()


if __name__ == "__main__":
    main()
