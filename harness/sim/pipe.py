"""C15: pipelines of 1-4 stages on the simulation driver.

Each stage is an ordinary submission in <pout>/output-stage<k>; the process that completes stage k runs
`jade pipeline submit-next-stage` which configures and submits stage k+1.  The driver follows the *current*
stage (switching when the next stage's cluster files are created) and checks the order / once-only /
bookkeeping clauses of C15 on the boundary events.
"""
import json
import os
import re

from . import model
from .driver import Sim, Inconclusive, is_write_open

STAGE_RE = re.compile(r"output-stage(\d+)")


def prepare(scen, root, ctx):
    """Write one configuration per stage and pipeline.json through JADE's public API."""
    os.environ["JADE_REGISTRY"] = ctx["registry"]
    from jade.extensions.generic_command import GenericCommandConfiguration, GenericCommandParameters
    from jade.jobs.pipeline_manager import PipelineManager
    from jade.models import HpcConfig, SlurmConfig, SubmitterParams, LocalHpcConfig

    files = []
    for k, stage in enumerate(scen["stages"], 1):
        # a stage may have its own teardown command (only settable in the stage's configuration file)
        cfg = GenericCommandConfiguration(**({"teardown_command": "hookprobe teardown"} if scen.get("stage_teardown") else {}))
        for j in stage:
            cfg.add_job(
                GenericCommandParameters(
                    command=f"probe {j['name']}",
                    name=j["name"],
                    blocked_by=set(j["blocked_by"]),
                    cancel_on_blocking_job_failure=j["flag"],
                    estimated_run_minutes=j["est"],
                )
            )
        f = os.path.join(root, f"c{k}.json")
        cfg.dump(f)
        files.append(f"c{k}.json")
    g = scen["groups"][0]
    if scen.get("mode") == "local":
        hpc = HpcConfig(hpc_type="local", hpc=LocalHpcConfig())
    else:
        hpc = HpcConfig(hpc_type="slurm", job_prefix=g["prefix"], hpc=SlurmConfig(account=g["account"], walltime=g["walltime"], **(g.get("slurm_opts") or {})))
    sp = SubmitterParams(
        hpc_config=hpc,
        per_node_batch_size=g["batch"],
        num_processes=g["procs_opt"],
        try_add_blocked_jobs=g["try_add"],
        max_nodes=scen["max_nodes"],
        poll_interval=scen["poll"],
        generate_reports=False,
        resource_monitor_type="none",
    )
    cwd = os.getcwd()
    os.chdir(root)
    try:
        PipelineManager.create_config_from_files(files, "pipeline.json", sp)
    finally:
        os.chdir(cwd)


class PipeSim(Sim):
    def __init__(self, root, scen, seed, ctx, verbose=False):
        scen["outname"] = "pout/output-stage1"
        Sim.__init__(self, root, scen, seed, ctx, verbose)
        self.pout = os.path.join(root, "pout")
        self.stage = 1
        self.nstages = len(scen["stages"])
        self.stage_of = {j["name"]: k for k, st in enumerate(scen["stages"], 1) for j in st}
        self.stage_created = {}  # k -> step of the first write of its config.json
        self.stage_submit_count = {}
        self.next_stage_cmds = {}  # k -> [(return code, host)]
        self.stage_complete_seen = {}
        self.stage_completions = {}
        self.post_resub_stage = None
        self.last_next_stage_argv = None
        self.obs_prev = 0
        self.all_jobs = dict(self.jobs)
        self.jobs = {j["name"]: j for j in scen["stages"][0]}

    def switch_stage(self, k):
        self.log("STAGE_SWITCH", self.stage, "->", k)
        self.stage = k
        self.outname = f"pout/output-stage{k}"
        self.out = os.path.join(self.root, self.outname)
        self.epoch = k - 1
        self.obs_prev += len(self.obs)
        self.obs = []
        self.holder = None
        self.recoveries = 0
        self.jobs = {j["name"]: j for j in self.scen["stages"][k - 1]}

    def stage_is_complete_on_disk(self, k):
        p = os.path.join(self.pout, f"output-stage{k}", "cluster_config.json")
        try:
            return bool(json.load(open(p)).get("is_complete"))
        except (OSError, ValueError):
            bk = p + ".bk"
            try:
                return bool(json.load(open(bk)).get("is_complete"))
            except (OSError, ValueError):
                return None

    def on_io(self, a, msg):
        p = msg.get("p", "")
        m = STAGE_RE.search(p)
        base = os.path.basename(p)
        if m and base == "config.json" and is_write_open(msg) and os.path.dirname(p).endswith(f"output-stage{m.group(1)}"):
            k = int(m.group(1))
            self.stage_submit_count[k] = self.stage_submit_count.get(k, 0) + 1
            self.log("STAGE_SUBMIT", k, "by", a.host, a.cmd[:50])
            if self.stage_submit_count[k] > 1:
                self.viol("C15", "stage-submitted-twice", f"stage {k} was configured and submitted {self.stage_submit_count[k]} times")
            if k > 1:
                done = self.stage_is_complete_on_disk(k - 1)
                if not done:
                    self.viol("C15", "stage-before-previous-complete", f"stage {k} is being submitted while stage {k - 1} is not complete on disk (is_complete={done})")
                if not self.stage_complete_seen.get(k - 1):
                    self.viol("C15", "stage-before-previous-complete", f"stage {k} is being submitted before any lock-free observation of stage {k - 1} showed it complete")
                # what "complete" means for the stages of a pipeline: in a fault-free run every job of the previous stage has its
                # outcome on disk and none of them is still running when the next stage is configured
                if self.ff and not self.faults_injected and not self.killed_nodes_n() and self.stage == k - 1:
                    rows = self._rows_on_disk()
                    noout = sorted(n for n in self.jobs if n not in rows)
                    running = sorted(j for (j, _n) in self.running_jobs.values() if j in self.jobs)
                    if (noout or running) and not self.rows_unknown:
                        self.viol("C15", "stage-before-previous-outcomes", f"stage {k} is being submitted while jobs {noout} of stage {k - 1} have no outcome (still running: {running}) in a fault-free run")
                # ... and its completion processing is over: the stage's teardown command, which JADE runs before it sets the
                # completion flag, has run
                if self.scen.get("stage_teardown") and self.ff and not self.faults_injected and not self.killed_nodes_n() and self.stage == k - 1:
                    nt = sum(1 for h in self.hooks_seen if h["kind"] == "teardown" and h["epoch"] == self.epoch)
                    self.teardown_checks = getattr(self, "teardown_checks", 0) + 1
                    if nt < 1:
                        self.viol("C15", "stage-before-previous-teardown", f"stage {k} is being configured before the teardown command of stage {k - 1} has run: stage {k - 1} is not finished")
            for kk in range(1, k):
                if kk not in self.stage_submit_count:
                    self.viol("C15", "stage-skipped", f"stage {k} submitted but stage {kk} never was")
            self.stage_created[k] = self.steps
            if k != self.stage:
                self.switch_stage(k)
        Sim.on_io(self, a, msg)

    def killed_nodes_n(self):
        return sum(1 for b in self.batches.values() if b.get("killed"))

    def finish_job(self, a):
        job = a.msg["env"].get("JADE_JOB_NAME")
        if job not in self.jobs and job in self.all_jobs:
            # a job of an earlier stage that was still running when the pipeline moved on (already reported at the stage switch)
            self.log("FINISH_OF_EARLIER_STAGE", job)
            return self.reply(a, rc=self.all_jobs[job]["rc"], out=f"OUT-{job}\n", err=f"ERR-{job}\n")
        return Sim.finish_job(self, a)

    def on_complete_visible(self, o):
        self.stage_complete_seen[self.stage] = True
        self.stage_completions[self.stage] = self.stage_completions.get(self.stage, 0) + 1
        Sim.on_complete_visible(self, o)

    def on_py_hello(self, a, msg):
        Sim.on_py_hello(self, a, msg)
        if "submit-next-stage" in a.cmd:
            m = re.search(r"--stage-num=(\d+)", a.cmd)
            r = re.search(r"--return-code=(-?\d+)", a.cmd)
            k = int(m.group(1)) if m else None
            rc = int(r.group(1)) if r else None
            if not (a.top or "").startswith("retrynext"):
                i0 = next((i for i, x in enumerate(a.argv) if x == "pipeline"), None)
                self.last_next_stage_argv = list(a.argv[i0:]) if i0 is not None else None
            else:
                self.log("NEXT_STAGE_RETRY", k, rc, a.host)
                return
            self.next_stage_cmds.setdefault(k, []).append((rc, a.host))
            self.log("NEXT_STAGE_CMD", k, rc, a.host)
            # one notification per completion of stage k-1 (a stage that is resubmitted later completes again)
            if len(self.next_stage_cmds[k]) > self.stage_completions.get(k - 1, 0):
                self.viol("C15", "next-stage-twice", f"submit-next-stage --stage-num={k} was run {len(self.next_stage_cmds[k])} times for {self.stage_completions.get(k - 1, 0)} completion(s) of stage {k - 1}")
            if not self.stage_complete_seen.get(k - 1) and not self.stage_is_complete_on_disk(k - 1):
                self.viol("C15", "next-stage-before-complete", f"submit-next-stage --stage-num={k} started while stage {k - 1} is not complete")

    def node_limit(self, job, node):
        g = self.scen["groups"][0]
        if g.get("procs_opt"):
            return g["procs_opt"]
        return os.cpu_count() if self.scen.get("mode") == "local" else 3

    def run(self):
        os.chdir(self.root)
        self.spawn_top("submit", ["jade", "pipeline", "submit", "pipeline.json", "-o", "pout"], "login")
        try:
            self.drive()
            if self.scen.get("resubmit_stage"):
                self.post_resubmit()
            if self.scen.get("retry_next_stage"):
                self.retry_next_stage()
            self.final_checks()
            err = None
        except Inconclusive as e:
            err = f"inconclusive: {e}"
        res = self.result(err)
        res["obs"] = (res.get("obs") or 0) + self.obs_prev
        res["stages"] = self.nstages
        res["stages_submitted"] = len(self.stage_submit_count)
        res["teardown_checks"] = getattr(self, "teardown_checks", 0)
        res["next_stage_cmds"] = sum(len(v) for v in self.next_stage_cmds.values())
        res["pipeline_complete"] = getattr(self, "pipeline_complete", None)
        res["stage_resubmitted"] = bool(getattr(self, "stage_resubmitted", False))
        res["next_stage_retries"] = getattr(self, "retried_next_stage", 0)
        res["nonzero_stage_rcs"] = sum(1 for v in self.next_stage_cmds.values() for (rc, h) in v if rc not in (0, None))
        return res

    def retry_next_stage(self):
        """History extension (C11 for pipelines): a `submit-next-stage` command was hit by an injected error; the user runs the
        same command again, twice, and a try-submit-jobs on the current stage.  A stage that was already configured must not be
        configured (and its jobs handed over) a second time."""
        if not self.faults_injected or not self.last_next_stage_argv:
            return
        self.scen["faults"] = {}
        for n in range(2):
            self.stuck = False
            self.recoveries = 0
            self.retried_next_stage = getattr(self, "retried_next_stage", 0) + 1
            self.spawn_top(f"retrynext{n}", ["jade"] + self.last_next_stage_argv, "login")
            self.drive()

    def post_resubmit(self):
        """History extension: after the pipeline completed, the user resubmits the failed jobs of one stage.  That stage
        completes a second time; the pipeline's bookkeeping and the later stages must be left alone."""
        try:
            pj = json.load(open(os.path.join(self.pout, "pipeline.json")))
        except (OSError, ValueError):
            return
        if not pj.get("is_complete") or not self.ff_now:
            return
        k = self.rng.randint(1, self.nstages)
        self.post_resub_stage = k
        self.pipeline_before = {"stage_num": pj.get("stage_num"), "is_complete": pj.get("is_complete"), "rcs": [st.get("return_code") for st in pj["stages"]]}
        self.switch_stage(k)
        self.epoch = 100 + k
        from jade.result import ResultsSummary

        try:
            rs = ResultsSummary(self.outname)
        except Exception:
            return
        cls = {r.name: self.classify(r) for r in rs.list_results()}
        sel = {n for n, c in cls.items() if c in ("failed", "canceled")} | set(rs.missing_jobs)
        closure = model.dependents_closure(self.scen["stages"][k - 1], sel)
        self.resub = {"selected": closure, "rc_key": "rc2", "model2": {}}
        self.epoch_transition = True
        self.log("STAGE_RESUBMIT", k, sorted(sel), sorted(closure))
        self.spawn_top(f"stageresub{k}", ["jade", "resubmit-jobs", self.outname], "login")
        self.drive()
        self.stage_resubmitted = True

    def on_idle(self):
        # the pipeline is over when the last stage is complete; otherwise the documented recovery applies to the current stage
        return Sim.on_idle(self)

    def final_checks(self):
        V = lambda key, text: self.viol("C15", key, text)
        try:
            pj = json.load(open(os.path.join(self.pout, "pipeline.json")))
        except (OSError, ValueError) as e:
            V("pipeline-json-unreadable", repr(e))
            return
        self.pipeline_complete = pj.get("is_complete")
        if self.post_resub_stage:
            pb = self.pipeline_before
            now = {"stage_num": pj.get("stage_num"), "is_complete": pj.get("is_complete")}
            if now != {"stage_num": pb["stage_num"], "is_complete": pb["is_complete"]}:
                V("bookkeeping-changed-by-stage-resubmission", f"resubmitting stage {self.post_resub_stage} of a completed pipeline changed pipeline.json from {pb} to {now}")
        last_created = max(self.stage_submit_count) if self.stage_submit_count else 0
        last_done = bool(self.stage_is_complete_on_disk(self.nstages)) if last_created == self.nstages else False
        exp_stage_num = self.nstages + 1 if (last_done and self.next_stage_cmds.get(self.nstages + 1)) else last_created
        # an error or kill inside submit-next-stage itself may leave the stage pointer advanced with the stage not configured
        manager_hit = any("submit-next-stage" in str(f) for f in self.faults_injected)
        if pj.get("stage_num") != exp_stage_num and not manager_hit:
            V("stage-num", f"pipeline.json stage_num={pj.get('stage_num')} but the last stage submitted is {last_created} (last stage complete: {last_done})")
        if pj.get("is_complete") and not last_done:
            V("complete-too-early", "pipeline marked complete before the last stage's completion flag")
        if last_done and self.ff_now and not pj.get("is_complete"):
            V("pipeline-not-complete", f"all {self.nstages} stages are complete but pipeline.json is_complete is false")
        from jade.result import ResultsSummary

        for k in range(1, self.nstages + 1):
            stage_jobs = self.scen["stages"][k - 1]
            if k not in self.stage_submit_count:
                if self.ff_now:
                    V("stage-never-submitted", f"stage {k} of {self.nstages} was never submitted in a fault-free run")
                continue
            if self.stage_submit_count[k] != 1:
                continue
            rec = pj["stages"][k - 1].get("return_code")
            cmds = self.next_stage_cmds.get(k + 1) or []
            done = self.stage_is_complete_on_disk(k)
            if done and self.ff_now and len(cmds) != self.stage_completions.get(k, 1):
                V("next-stage-count", f"stage {k} completed {self.stage_completions.get(k, 1)} time(s) but submit-next-stage --stage-num={k + 1} ran {len(cmds)} times")
            if cmds:
                if rec != cmds[0][0]:
                    V("return-code-recorded", f"stage {k}: pipeline.json records return_code={rec} but the completing submitter passed --return-code={cmds[0][0]}")
                try:
                    rs = ResultsSummary(f"pout/output-stage{k}")
                    missing = list(rs.missing_jobs)
                    classes = {r.name: self.classify(r) for r in rs.list_results()}
                    allok = not missing and len(classes) == len(stage_jobs) and all(c == "successful" for c in classes.values())
                    if missing and cmds[0][0] == 0:
                        V("return-code-zero-with-missing", f"stage {k} ended with missing jobs {missing} but return code 0 was passed on")
                    if allok and cmds[0][0] != 0:
                        V("return-code-nonzero-all-successful", f"stage {k}: all jobs successful but return code {cmds[0][0]}")
                    if self.ff_now and k != self.post_resub_stage:
                        mdl = model.evaluate(stage_jobs)
                        for n, (c, rc) in mdl.items():
                            if classes.get(n) != c:
                                self.viol("C03", "wrong-class", f"stage {k} job {n}: {classes.get(n)} != {c}")
                except Exception as e:
                    V("stage-results-unreadable", f"stage {k}: {e!r}")
        # each job started at most once over the whole pipeline
        for n, ls in self.launches.items():
            allowed = 2 if (self.post_resub_stage and self.stage_of.get(n) == self.post_resub_stage) else 1
            if len(ls) > allowed:
                self.viol("C15" if self.post_resub_stage else "C01", "job-started-twice", f"{n} (stage {self.stage_of.get(n)}) started {len(ls)} times in the pipeline")
        last = self.obs[-1] if self.obs else None
        self.complete = bool(pj.get("is_complete"))
        if self.ff_now and not self.complete:
            self.viol("C05", "not-complete", f"fault-free pipeline did not complete: stage_num={pj.get('stage_num')} of {self.nstages}")
