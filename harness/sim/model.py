"""Reference model of a *scenario* (not of JADE): evaluate the DAG in topological order.

A flagged job is canceled iff some blocker ended failed or canceled; otherwise it runs and is
successful/failed by its scripted exit code.  Nothing about batches, rounds or files.
"""


def evaluate(jobs, rc_key="rc", only=None, prior=None):
    """jobs: list of {"name","blocked_by","flag",rc_key}.  Returns {name: (class, rc)}.

    only/prior: for a resubmission, `only` is the set of jobs being rerun and `prior` the outcomes of
    the others (which keep their earlier outcome).
    """
    by = {j["name"]: j for j in jobs}
    out = {}
    visiting = set()

    def ev(n):
        if n in out:
            return out[n]
        if only is not None and n not in only:
            out[n] = prior.get(n, ("missing", None))
            return out[n]
        if n in visiting:  # cycle: never runs
            return ("missing", None)
        visiting.add(n)
        j = by[n]
        bl = [ev(b) for b in j["blocked_by"]]
        visiting.discard(n)
        if only is not None and any(c == "missing" for (c, _), b in zip(bl, j["blocked_by"]) if b not in only) and not any(
            c in ("missing", "missing_or_canceled") for (c, _), b in zip(bl, j["blocked_by"]) if b in only
        ):
            # resubmission: a blocker that is NOT rerun never got an outcome (the user excluded missing jobs).  JADE
            # hands the dependent over with only the rerun blockers; the property does not decide this case.
            if j["flag"] and any(c in ("failed", "canceled") for (c, _), b in zip(bl, j["blocked_by"]) if b in only):
                out[n] = ("canceled", 1)
            else:
                out[n] = ("either_or_missing", j[rc_key])
        elif any(c in ("missing", "either_or_missing") for c, _ in bl):
            # waits for a job that never gets an outcome -> never started.  Canceled only if flagged and
            # another blocker failed (JADE may or may not notice before giving up): both accepted by
            # callers through "missing_or_canceled".
            if j["flag"] and any(c in ("failed", "canceled") for c, _ in bl):
                out[n] = ("missing_or_canceled", None)
            else:
                out[n] = ("missing", None)
        elif j["flag"] and any(c in ("failed", "canceled") for (c, _), b in zip(bl, j["blocked_by"]) if only is None or b in only):
            out[n] = ("canceled", 1)
        elif j["flag"] and any(c in ("failed", "canceled", "either") for c, _ in bl):
            # resubmission: a blocker that is NOT rerun keeps an earlier failed/canceled outcome (or a rerun blocker is
            # itself ambiguous).  The property does not say whether that cancels the rerun dependent: accept both.
            rc = j[rc_key]
            out[n] = ("either", rc)
        else:
            rc = j[rc_key]
            out[n] = ("successful" if rc == 0 else "failed", rc)
        return out[n]

    for n in by:
        ev(n)
    return out


def dependents_closure(jobs, selected):
    """selected plus every job that transitively depends on one of them."""
    sel = set(selected)
    changed = True
    while changed:
        changed = False
        for j in jobs:
            if j["name"] not in sel and set(j["blocked_by"]) & sel:
                sel.add(j["name"])
                changed = True
    return sel


def has_cycle(jobs):
    by = {j["name"]: j for j in jobs}
    color = {}

    def dfs(n):
        color[n] = 1
        for b in by[n]["blocked_by"]:
            if b not in by:
                continue
            if color.get(b) == 1:
                return True
            if color.get(b) is None and dfs(b):
                return True
        color[n] = 2
        return False

    return any(color.get(n) is None and dfs(n) for n in by)
