"""C13: resubmission scenarios on top of the simulation driver.

* complete case: base run to completion (any mix of successful / failed / canceled / missing), then
  `jade resubmit-jobs` with a flag combination, run to completion, optionally once more;
* refusal cases: the command on an incomplete submission, idle or while another process holds the
  submitter role (job finishes are frozen while it runs so that the submission cannot complete under it);
* failure case: a fault injected into the resubmit-jobs process itself, followed by the documented
  commands (resubmit-jobs again, try-submit-jobs), bounded.
"""
import os
import re

from . import model
from .driver import Sim, Inconclusive, is_write_open

STATE_FILES = re.compile(r"(job_status\.json|job_status_version\.txt|processed_results\.csv|results_batch_\d+\.csv|results\.json)(\.bk)?$")


class ResubSim(Sim):
    def viol(self, prop, key, text):
        Sim.viol(self, prop, key, text)
        if prop == "C10" and key == "foreign-demote" and "resubmit-jobs" in text.split("cleared")[0]:
            Sim.viol(self, "C13", "refusal-disturbed-role", "resubmit-jobs that was never promoted: " + text)
        if prop == "C02" and key == "started-before-blocker" and self.epoch > 0 and not self.scen.get("c11"):
            # "each once and in dependency order" is part of C13's own statement
            Sim.viol(self, "C13", "rerun-out-of-dependency-order", "in a resubmission: " + text)

    # ---------------------------------------------------------------- refusal on an incomplete submission
    def user_actions(self, u):
        Sim.user_actions(self, u)
        rs = self.scen.get("resubmit") or {}
        p = rs.get("early_p")
        if p and self.early_resub is None and self.sbatches and self.obs and not self.obs[-1]["complete"] and self.epoch == 0:
            rows = self._rows_on_disk()
            unfinished = [n for n in self.jobs if n not in rows]
            if unfinished and self.running_jobs and self.rng.random() < p:
                self.early_resub = {"rows": {k: sorted(v) for k, v in rows.items()}, "obs": dict(self.obs[-1]), "holder": self.holder, "tag": "userresub_early"}
                self.frozen_finishes = True
                host = rs.get("early_host") or self.rng.choice(["login", "login2", self.holder[1] if self.holder else "login"])
                self.early_resub["host"] = host
                self.log("EARLY_RESUBMIT on", host, "holder", self.holder)
                self.spawn_top("userresub_early", ["jade", "resubmit-jobs", self.outname], host)

    def on_io(self, a, msg):
        Sim.on_io(self, a, msg)
        if a.top in ("userresub_early", "userresub_idle") and "resubmit-jobs" in a.cmd:
            base = os.path.basename(msg.get("p", ""))
            if STATE_FILES.search(base) and (is_write_open(msg) or msg.get("ev") in ("os.rename", "os.remove")):
                self.viol("C13", "refused-resubmit-mutated-state", f"resubmit-jobs on an incomplete submission is about to {msg.get('ev')} {base}")

    def check_recovery(self):
        Sim.check_recovery(self)
        er = self.early_resub
        for tag in ("userresub_early", "userresub_idle"):
            if tag in self.top_rc and not getattr(self, f"_judged_{tag}", False):
                setattr(self, f"_judged_{tag}", True)
                self.frozen_finishes = False
                rc = self.top_rc[tag]
                if rc == 0:
                    self.viol("C13", "resubmit-on-incomplete-accepted", f"resubmit-jobs on an incomplete submission exited 0 ({tag})")
                o = self.observe(f"after refused {tag}") or (self.obs[-1] if self.obs else None)
                lock = os.path.join(self.out, "cluster_config.json.lock")
                if os.path.exists(lock) and not any(True for _ in self.actors):
                    self.viol("C13", "refusal-left-lock", f"refused resubmit-jobs ({tag}, exit {rc}) left the cluster lock marker behind")
                # (the role of another process: decided by the role monitor, which attributes every change of the submitter field to
                #  the process that released the cluster lock - see viol() below)
                self.refusals_checked = getattr(self, "refusals_checked", 0) + 1

    def on_idle(self):
        rs = self.scen.get("resubmit") or {}
        if rs.get("idle") and not self.idle_resub_done and self.epoch == 0:
            o = self.observe("idle")
            if o and not o["complete"] and not self.active_batches() and not self.stuck:
                self.idle_resub_done = True
                self.idle_snap = {"obs": dict(o), "holder": self.holder, "host": "login"}
                self.spawn_top("userresub_idle", ["jade", "resubmit-jobs", self.outname], "login")
                return True
        return Sim.on_idle(self)

    # ---------------------------------------------------------------- the real resubmission
    def do_resubmit(self):
        rs = self.scen["resubmit"]
        rounds = rs.get("rounds") or []
        for k, flags in enumerate(rounds):
            if not self.resubmit_once(k, flags, rs):
                break

    def snapshot_results(self):
        from jade.result import ResultsSummary

        rsum = ResultsSummary(self.outname)
        before = {}
        for r in rsum.list_results():
            before[r.name] = (r.return_code, r.status, r.exec_time_s, r.completion_time)
        return before, list(rsum.missing_jobs), rsum

    def resubmit_once(self, k, flags, rs):
        last = self.obs[-1] if self.obs else None
        if not (last and last["complete"]) or not os.path.exists(os.path.join(self.out, "results.json")):
            self.note("resubmission skipped: base submission did not complete")
            return False
        before, missing, rsum = self.snapshot_results()
        if flags.get("bad_groups"):
            # first the user passes a groups file that does not fit the submission (one group too many / a group that does not
            # exist): the command must fail without erasing anything and without keeping the role - the real command follows
            import copy
            import json

            data = json.load(open(os.path.join(self.out, "submitter_groups.json")))
            if flags["bad_groups"] == "length":
                extra = copy.deepcopy(data[0])
                extra["name"] = "one_too_many"
                data.append(extra)
            else:
                data[-1]["name"] = "no_such_group"
            bf = os.path.join(self.root, f"groups_bad{k}.json")
            json.dump(data, open(bf, "w"), indent=2)
            nl0 = sum(len(v) for v in self.launches.values())
            nb0 = len(self.sbatches)
            btag = f"resubbad{k}"
            self.spawn_top(btag, ["jade", "resubmit-jobs", self.outname, "-s", bf], rs.get("host", "login"))
            self.drive()
            self.bad_groups_checked = getattr(self, "bad_groups_checked", 0) + 1
            if self.top_rc.get(btag) == 0:
                self.viol("C13", "malformed-groups-accepted", f"resubmit-jobs -s with a groups file that does not fit the submission ({flags['bad_groups']}) exited 0")
            o = self.observe("after refused input") or (self.obs[-1] if self.obs else None)
            after_bad, missing_bad, _ = self.snapshot_results()
            if after_bad != before or sorted(missing_bad) != sorted(missing) or sum(len(v) for v in self.launches.values()) != nl0 or len(self.sbatches) != nb0:
                self.viol("C13", "failed-command-changed-results", f"resubmit-jobs failed on its input ({flags['bad_groups']}) but results / launches changed: {len(before)} -> {len(after_bad)} results, {len(self.sbatches) - nb0} batches")
            if o and (not o["complete"] or o["submitter"] is not None):
                self.viol("C13", "failed-command-left-state", f"after resubmit-jobs failed on its input: complete={o['complete']} submitter={o['submitter']}")
        cls = {n: self.classify_tuple(v) for n, v in before.items()}
        sel = set()
        if flags.get("failed", True):
            sel |= {n for n, c in cls.items() if c in ("failed", "canceled")}
        if flags.get("successful", False):
            sel |= {n for n, c in cls.items() if c == "successful"}
        if flags.get("missing", True):
            sel |= set(missing)
        closure = model.dependents_closure(self.scen["jobs"], sel)
        prior = {n: (cls[n], before[n][0]) for n in before}
        for n in self.jobs:
            prior.setdefault(n, ("missing", None))
        rc_key = "rc2" if k == 0 else f"rc{k + 2}"
        for j in self.scen["jobs"]:
            j.setdefault(rc_key, 0 if (sum(map(ord, j["name"])) + k) % 4 else 1)
        model2 = model.evaluate(self.scen["jobs"], rc_key=rc_key, only=closure, prior=prior)
        self.epoch += 1
        self.epoch_transition = True
        self.resub = {"selected": closure, "model2": model2, "rc_key": rc_key, "flags": flags, "directly": sorted(sel)}
        self.log("RESUBMIT", flags, "selected", sorted(sel), "closure", sorted(closure))
        self.recoveries = 0
        self.stuck = False
        self.canceled_visible_step = None
        # faults of the base run are over; the resubmission itself is fault-free unless it asks for its own fault
        self.scen["faults"] = dict(rs.get("faults") or {})
        self.sq_budget = self.scen["faults"].get("squeue_fail_budget", 10**9)
        self.ff = not self.scen["faults"]
        self.fault_budget = 0
        self.crash_done = False
        argv = ["jade", "resubmit-jobs", self.outname]
        for name in ("failed", "missing", "successful"):
            dflt = name != "successful"
            val = flags.get(name, dflt)
            if val != dflt:
                argv.append(f"--{name}" if val else f"--no-{name}")
        if flags.get("groups"):
            # documented way to change the submission parameters of a resubmission: copy submitter_groups.json, edit it,
            # pass it with -s.  From here on the groups' limits and HPC parameters are the new ones.
            import json

            data = json.load(open(os.path.join(self.out, "submitter_groups.json")))
            new = {g["name"]: g for g in flags["groups"]}
            for d in data:
                g = new[d["name"]]
                sp = d["submitter_params"]
                sp["per_node_batch_size"] = g["batch"]
                sp["time_based_batching"] = g["time_based"]
                sp["num_parallel_processes_per_node"] = g["procs_opt"]
                sp["try_add_blocked_jobs"] = g["try_add"]
                sp["verbose"] = g.get("verbose", False)
                sp["hpc_config"]["hpc"]["walltime"] = g["walltime"]
                sp["hpc_config"]["hpc"]["account"] = g["account"]
                for k_ in ("partition", "qos", "mem"):
                    sp["hpc_config"]["hpc"][k_] = (g.get("slurm_opts") or {}).get(k_)
            gf = os.path.join(self.root, f"groups_resubmit{k}.json")
            json.dump(data, open(gf, "w"), indent=2)
            argv += ["-s", gf]
            self.groups = new
            self.scen["groups"] = flags["groups"]
            self.log("RESUBMIT_GROUPS", [(g["name"], g["batch"], g["time_based"], g["walltime"], g["procs_opt"]) for g in flags["groups"]])
        n_launch0 = {n: len(v) for n, v in self.launches.items()}
        tag = f"resubmit{k}"
        self.spawn_top(tag, argv, rs.get("host", "login"))
        self.resub_tag = tag
        self.drive()
        rc = self.top_rc.get(tag)
        outage_only = bool(self.scen["faults"]) and set(self.scen["faults"]) <= {"squeue_fail", "squeue_fail_budget", "max_recoveries", "outage_freeze"}
        if self.scen["faults"] and not outage_only:
            self.after_failed_resubmit(tag, before, closure)
            return False
        # a scheduler that does not answer for a while is not a fault of the command: the round it hits may fail, but the
        # documented try-submit-jobs (driven above until idle) must then carry the resubmission through - judged like any other
        # ---- oracles
        ep = self.epoch
        lastc = self.obs[-1] if self.obs else None
        if rc not in (0, None) and not (lastc and lastc["complete"]) and not any(l["epoch"] == ep for v in self.launches.values() for l in v):
            tail = ""
            try:
                lines = open(os.path.join(self.root, f"top_{tag}.log")).read().strip().splitlines()
                tail = lines[-1][:200] if lines else ""
            except OSError:
                pass
            self.viol("C13", "resubmit-command-failed", f"resubmit-jobs {flags} exited {rc} without starting anything; stuck={self.stuck}; last output: {tail}")
            return False
        relaunched = {n for n, v in self.launches.items() if any(l["epoch"] == ep for l in v)}
        for n, v in self.launches.items():
            c = sum(1 for l in v if l["epoch"] == ep)
            if c > 1:
                self.viol("C13", "rerun-more-than-once", f"{n} was started {c} times by one resubmission")
        exp_launch0 = {n for n in closure if model2[n][0] in ("successful", "failed")}
        maybe = {n for n in closure if model2[n][0] in ("either", "either_or_missing", "missing_or_canceled")}
        # anything downstream of an undecided job is undecided as well
        maybe = model.dependents_closure(self.scen["jobs"], maybe) & closure if maybe else maybe
        exp_launch = exp_launch0 - maybe
        if not (exp_launch <= relaunched <= exp_launch | maybe):
            self.viol("C13", "rerun-set", f"resubmit-jobs {flags}: started {sorted(relaunched)}, expected (selected {sorted(sel)} + dependents, minus canceled) {sorted(exp_launch)}")
        last = self.obs[-1] if self.obs else None
        if not (last and last["complete"]):
            tail = ""
            try:
                lines = open(os.path.join(self.root, f"top_{tag}.log")).read().strip().splitlines()
                tail = lines[-1][:200] if lines else ""
            except OSError:
                pass
            key = "resubmit-command-failed" if rc not in (0, None) else "resubmission-incomplete"
            self.viol("C13", key, f"resubmission {flags} (exit {rc}) did not reach completion; stuck={self.stuck}; last output: {tail}")
            return False
        try:
            after, missing2, _ = self.snapshot_results()
        except Exception as e:
            self.viol("C13", "results-unreadable", repr(e))
            return False
        for n, v in before.items():
            if n not in closure and after.get(n) != v:
                self.viol("C13", "untouched-result-changed", f"result of {n} (not resubmitted) changed {v} -> {after.get(n)}")
        exp_missing = sorted(n for n in self.jobs if model2[n][0] == "missing")
        have = set(after)
        if sorted(missing2) != sorted(set(self.jobs) - have):
            self.viol("C13", "missing-list", f"missing_jobs {sorted(missing2)} != configured-minus-results {sorted(set(self.jobs) - have)}")
        for n in self.jobs:
            m = model2[n][0]
            got = self.classify_tuple(after[n]) if n in after else "missing"
            ok = got == m or (m == "missing_or_canceled" and got in ("missing", "canceled"))
            if m == "either":
                exp_run = "successful" if model2[n][1] == 0 else "failed"
                ok = got in ("canceled", exp_run) and (got == "canceled") == (n not in relaunched)
            if n in maybe and m != "either":
                # undecided by the property: only demand self-consistency (a finished result iff it was started)
                ok = (got in ("successful", "failed")) == (n in relaunched)
            if not ok:
                self.viol("C13", "outcome-after-resubmission", f"{n}: {got} after resubmission, expected {m}")
                if n in closure and n not in maybe and "canceled" in (got, m) and m in ("canceled", "successful", "failed"):
                    # failure cancellation among the jobs of a resubmission is C04's statement as well (decided cases only)
                    self.viol("C04", "cancellation-in-resubmission", f"{n} (flag {self.jobs[n]['flag']}): {got} after resubmission, the dependency graph with the rerun exit codes gives {m}")
            elif n in closure and m in ("successful", "failed") and after[n][0] != model2[n][1]:
                self.viol("C13", "outcome-after-resubmission", f"{n}: return code {after[n][0]} after resubmission, expected {model2[n][1]}")
        self.resubmissions_checked = getattr(self, "resubmissions_checked", 0) + 1
        self.resub_sizes = getattr(self, "resub_sizes", []) + [(len(sel), len(closure), len(exp_launch))]
        return True

    @staticmethod
    def classify_tuple(v):
        rc, status = v[0], v[1]
        if status == "finished":
            return "successful" if rc == 0 else "failed"
        if status == "canceled" and rc != 0:
            return "canceled"
        return "?"

    def after_failed_resubmit(self, tag, before, closure):
        """A fault was injected into resubmit-jobs itself.  Either nothing was erased, or some documented
        command sequence still brings the submission to one entry per job."""
        if not self.faults_injected or not any("resubmit" in str(f) for f in self.faults_injected):
            # the fault point was never reached: treat as a plain resubmission that was already judged by FF rules
            self.note("resubmit fault point not reached")
            return
        rows = self._rows_on_disk()
        erased = sorted(n for n in before if n not in rows)
        self.log("RESUBMIT_FAULT erased", erased)
        tries = 0
        for cmd in (["jade", "resubmit-jobs", self.outname], ["jade", "try-submit-jobs", self.outname], ["jade", "resubmit-jobs", self.outname]):
            if self.one_entry_per_job():
                break
            tries += 1
            self.scen["faults"] = {}
            self.ff = False
            self.stuck = False
            self.recoveries = 0
            t = f"afterfault{tries}"
            self.spawn_top(t, cmd, "login")
            try:
                self.drive()
            except Inconclusive:
                raise
        ok = self.one_entry_per_job()
        self.resub_fault_checked = getattr(self, "resub_fault_checked", 0) + 1
        if erased and not ok:
            f = self.faults_injected[-1]
            # informational only: C13 quantifies over inputs and histories, not over injected faults
            self.note(f"(beyond C13) fault {f} in resubmit-jobs: results of {erased} erased and neither resubmit-jobs nor try-submit-jobs brings the submission back to one entry per job")

    def one_entry_per_job(self):
        last = self.observe("probe") or (self.obs[-1] if self.obs else None)
        if not (last and last["complete"]):
            return False
        try:
            after, missing, _ = self.snapshot_results()
        except Exception:
            return False
        return set(after) == set(self.jobs) and not missing

    def final_checks(self):
        if self.epoch > 0 or (self.scen.get("resubmit") or {}).get("rounds"):
            # the per-epoch oracles ran inside resubmit_once; run the generic multiset checks only
            ep = self.epoch
            placed = {}
            for s in self.sbatches:
                if s["epoch"] == ep:
                    for j in s["jobs"]:
                        placed.setdefault(j, []).append(s["script"])
            for j, l in placed.items():
                if len(l) > 1:
                    self.viol("C01", "double-placement", f"job {j} handed to the HPC in {len(l)} batches of one resubmission: {l}")
            scripts = [s["script"] for s in self.sbatches]
            if len(scripts) != len(set(scripts)):
                self.viol("C01", "batch-id-reused", f"batch identifier reused across (re)submissions: {sorted(x for x in set(scripts) if scripts.count(x) > 1)}")
            last = self.obs[-1] if self.obs else None
            self.complete = bool(last and last["complete"])
            if self.scen.get("check_events") and self.complete:
                self.final_events()  # the events of every round, the resubmissions included, against the consolidated summary
            return
        Sim.final_checks(self)

    def result(self, err=None):
        res = Sim.result(self, err)
        res["resubmissions_checked"] = getattr(self, "resubmissions_checked", 0)
        res["refusals_checked"] = getattr(self, "refusals_checked", 0)
        res["resub_fault_checked"] = getattr(self, "resub_fault_checked", 0)
        res["resub_sizes"] = getattr(self, "resub_sizes", [])
        res["bad_groups_checked"] = getattr(self, "bad_groups_checked", 0)
        res["resub_flags"] = (self.resub or {}).get("flags")
        return res
