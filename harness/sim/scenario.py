"""Seeded scenario generator and configuration writer.

A scenario is a plain JSON document: jobs (DAG, exit codes per attempt, cancel flags, estimates, groups),
submission groups, shared submitter parameters, lifecycle commands, user script, fault plan, scheduling
policy.  It is stored verbatim in replay files and sampled into evidence.
"""
import os
import random


def _dag(rng, n, shape):
    names = [f"j{i}" for i in range(n)]
    deps = {x: [] for x in names}
    if shape == "chain":
        for i in range(1, n):
            deps[names[i]] = [names[i - 1]]
    elif shape == "diamond" and n >= 4:
        deps[names[1]] = [names[0]]
        deps[names[2]] = [names[0]]
        deps[names[3]] = [names[1], names[2]]
        for i in range(4, n):
            deps[names[i]] = [names[rng.randrange(i)]] if rng.random() < 0.6 else []
    elif shape == "fanin":
        deps[names[-1]] = names[:-1]
    elif shape == "fanout":
        for i in range(1, n):
            deps[names[i]] = [names[0]]
    elif shape == "fanfail" and n >= 5:
        # X (fails) and S (slow) block k flagged jobs (k = 2 or 3); the other jobs (>= 1) wait for S only
        k = min(rng.choice([2, 2, 3]), n - 3)
        for i in range(2, 2 + k):
            deps[names[i]] = [names[0], names[1]]
        for i in range(2 + k, n):
            deps[names[i]] = [names[1]]
    elif shape == "tri":
        # triples A <- B, {A, B} <- C: a job with two blockers one of which depends on the other
        for i in range(0, n - 2, 3):
            deps[names[i + 1]] = [names[i]]
            deps[names[i + 2]] = [names[i], names[i + 1]]
    elif shape == "two":
        h = max(1, n // 2)
        for i in range(1, h):
            deps[names[i]] = [names[i - 1]]
        for i in range(h + 1, n):
            deps[names[i]] = [names[i - 1]]
    else:
        dens = rng.choice([0.0, 0.15, 0.3, 0.5])
        for i in range(n):
            deps[names[i]] = [names[k] for k in range(i) if rng.random() < dens]
    return names, deps


def gen_groups(rng, ngroups, est_hint=6):
    groups = []
    for g in range(ngroups):
        tb = rng.random() < 0.35
        procs_opt = rng.choice([None, 1, 2, 3])
        if tb and procs_opt is None:
            procs_opt = rng.choice([1, 2])
        wall = rng.randint(6, 12)
        opts = {}
        if rng.random() < 0.5:
            opts["partition"] = f"part{g}"
        if rng.random() < 0.3:
            opts["qos"] = rng.choice(["high", "normal"])
        if rng.random() < 0.2:
            opts["mem"] = rng.choice(["4G", "8000"])
        groups.append(
            {
                "name": f"g{g}",
                "batch": rng.randint(1, 4),
                "time_based": tb,
                "wall_min": wall,
                "walltime": f"0:{wall:02d}:00",
                "procs_opt": procs_opt,
                "procs": procs_opt if procs_opt else 3,  # SLURM_CPUS_ON_NODE of the virtual nodes is 3
                "try_add": rng.random() < 0.6,
                "verbose": rng.random() < 0.15,
                "dsub": True,
                "account": f"acct_g{g}",
                "prefix": f"jobg{g}",
                "slurm_opts": opts,
            }
        )
    return groups


def changed_groups(rng, groups):
    """New parameters for the same groups (resubmit-jobs -s): another batch size / batching mode / processes per node /
    HPC parameters.  The walltime only grows, so every estimate that fitted still fits."""
    out = []
    for g in groups:
        n = dict(g)
        n["batch"] = rng.choice([b for b in (1, 2, 3, 4, 5) if b != g["batch"]])
        n["time_based"] = rng.random() < 0.35
        n["procs_opt"] = rng.choice([None, 1, 2, 3])
        if n["time_based"] and n["procs_opt"] is None:
            n["procs_opt"] = rng.choice([1, 2])
        n["procs"] = n["procs_opt"] if n["procs_opt"] else 3
        n["wall_min"] = g["wall_min"] + rng.randint(1, 5)
        n["walltime"] = f"0:{n['wall_min']:02d}:00"
        n["try_add"] = rng.random() < 0.6
        n["account"] = g["account"] + rng.choice(["", "_b"])
        opts = dict(g.get("slurm_opts") or {})
        if rng.random() < 0.5:
            opts["partition"] = "repart_" + g["name"]
        elif "partition" in opts and rng.random() < 0.5:
            del opts["partition"]
        n["slurm_opts"] = opts
        out.append(n)
    return out


def gen_scenario(rng, max_jobs=10, min_jobs=2, shapes=None, fail_p=0.5, flag_p=0.5):
    n = rng.randint(min_jobs, max_jobs)
    shape = rng.choice(shapes or ["random", "random", "random", "chain", "diamond", "fanin", "fanout", "two"])
    names, deps = _dag(rng, n, shape)
    groups = gen_groups(rng, rng.choice([1, 1, 2, 3]))
    jobs = []
    for nm in names:
        jobs.append(
            {
                "name": nm,
                "blocked_by": deps[nm],
                "rc": rng.choice([0, 0, 0, 1, 3, 255]) if rng.random() < fail_p else 0,
                "rc2": rng.choice([0, 0, 0, 2]),
                "flag": rng.random() < flag_p,
                "est": rng.randint(1, 6),
                "group": rng.choice(groups)["name"],
            }
        )
    rng.shuffle(jobs)  # listing order independent of dependency order
    used = {j["group"] for j in jobs}
    groups = [g for g in groups if g["name"] in used]
    return {
        "kind": "sim",
        "shape": shape,
        "jobs": jobs,
        "groups": groups,
        "max_nodes": rng.choice([None, None, 1, 2, 3]),
        "poll": rng.choice([0, 1, 1, 5]),
        "reports": False,
        "mode": "slurm",
        "dry_run": False,
        "hooks": {},
        "policy": {
            "kind": rng.choice(["walk", "sticky", "sticky", "pct"]),
            "sticky": rng.choice([0.5, 0.8, 0.95]),
            "pct_d": rng.randint(1, 4),
            "finish_w": rng.choice([0.2, 1.0, 3.0]),
            "start_w": rng.choice([0.2, 1.0]),
            "time_w": rng.choice([0.0, 0.1, 0.5]),
            "park_p": rng.choice([0.0, 0.0, 0.05, 0.2]),
        },
        "user": {"try_submit": rng.choice([0, 0, 1, 2]), "show_status": rng.choice([0, 0, 1]), "late_try": rng.choice([0, 0, 1])},
        "faults": {},
        "filelock": "",
        "hashseed": rng.choice([0, 1]),
        "squeue_vocab": rng.choice(["basic", "basic", "full"]),
    }


def normalize(scen):
    """Keep a generated scenario valid: estimates within the group's walltime, groups all used."""
    groups = {g["name"]: g for g in scen["groups"]}
    for j in scen["jobs"]:
        g = groups[j["group"]]
        if j["est"] > g["wall_min"]:
            j["est"] = g["wall_min"]
    from .oracle_batch import WALLTIME_SPELLINGS

    for g in scen["groups"]:
        g["walltime"] = WALLTIME_SPELLINGS[g.get("wall_spelling") or "hms"](g["wall_min"])
        if g["time_based"] and g["procs_opt"] is None:
            g["procs_opt"] = 2
        g["procs"] = g["procs_opt"] if g["procs_opt"] else 3
    used = {j["group"] for j in scen["jobs"]}
    scen["groups"] = [g for g in scen["groups"] if g["name"] in used]
    return scen


def to_cli_mode(scen):
    """The commonest way JADE is used: no submission groups in the configuration, every submitter parameter given as an option of
    `jade submit-jobs` (-b -q -n -p -t -h ...).  One group, which JADE calls "default"."""
    g = dict(scen["groups"][0], name="default")
    # a third of these runs give the parameters in a file instead (`submit-jobs -s submitter_params.json`, as written by
    # `jade config submitter-params`), which supersedes the options
    by_file = (len(scen["jobs"]) + sum(j["est"] for j in scen["jobs"])) % 3 == 0
    if g["time_based"] and not by_file:
        g["batch"] = 500  # --per-node-batch-size may not be combined with --time-based-batching: JADE's default stays recorded
    scen["groups"] = [g]
    for j in scen["jobs"]:
        j["group"] = "default"
    scen["cli_params"] = "file" if by_file else True
    if scen.get("max_nodes") == 1 and not by_file:
        scen["max_nodes"] = 2  # the option only accepts values >= 2
    return normalize(scen)


def cli_options(scen):
    g = scen["groups"][0]
    if scen.get("cli_params") == "file":
        return ["-s", "submitter_params.json"] + (["-b", "1", "-n", "7"] if len(scen["jobs"]) % 2 else [])  # options given besides the file are superseded by it
    o = ["-h", "hpc_config.json", "-p", str(scen["poll"]), "-R", "none", "--reports" if scen["reports"] else "--no-reports"]
    o.append("--try-add-blocked-jobs" if g["try_add"] else "--no-try-add-blocked-jobs")
    if g["time_based"]:
        o.append("-t")
    else:
        o += ["-b", str(g["batch"])]
    if g["procs_opt"] is not None:
        o += ["-q", str(g["procs_opt"])]
    if scen["max_nodes"] is not None:
        o += ["-n", str(scen["max_nodes"])]
    if g.get("verbose"):
        o.append("--verbose")
    if not g.get("dsub", True):
        o.append("-N")
    if scen.get("dry_run"):
        o.append("--dry-run")
    return o


def _sing_off():
    """A Singularity section that is present but switched off (a parameters file written with --enable-singularity and edited):
    the batch must run exactly as without it."""
    from jade.models.singularity import SingularityParams

    return SingularityParams(enabled=False, container="/images/not_used.sif")


def write_config(scen, root, registry):
    """Write <root>/config.json for the scenario through JADE's public models."""
    os.environ["JADE_REGISTRY"] = registry
    from jade.extensions.generic_command import GenericCommandConfiguration, GenericCommandParameters
    from jade.models import HpcConfig, SlurmConfig, SubmissionGroup, SubmitterParams

    kw = {}
    hooks = scen.get("hooks") or {}
    for key, field in (("setup", "setup_command"), ("teardown", "teardown_command"), ("nsetup", "node_setup_command"), ("nteardown", "node_teardown_command")):
        if hooks.get(key):
            kw[field] = f"hookprobe {key}"
    cfg = GenericCommandConfiguration(**kw)
    for j in scen["jobs"]:
        bl = set(j["blocked_by"])
        cfg.add_job(
            GenericCommandParameters(
                command=j.get("command") or f"probe {j['name']}",
                name=None if j.get("auto_name") else j["name"],  # unnamed: JADE names the job str(job_id), ids count from 1
                blocked_by=bl,
                cancel_on_blocking_job_failure=j["flag"],
                estimated_run_minutes=j["est"],
                **({} if scen.get("cli_params") else {"submission_group": j["group"]}),
                append_job_name=j.get("append_job_name", False),
                append_output_dir=j.get("append_output_dir", False),
            )
        )
    for g in scen["groups"]:
        if scen.get("mode") == "local":
            from jade.models import LocalHpcConfig

            hpc = HpcConfig(hpc_type="local", hpc=LocalHpcConfig())
        else:
            hpc = HpcConfig(
                hpc_type="slurm",
                job_prefix=g["prefix"],
                hpc=SlurmConfig(account=g["account"], walltime=g["walltime"], **(g.get("slurm_opts") or {})),
            )
        sp = SubmitterParams(
            hpc_config=hpc,
            per_node_batch_size=g["batch"],
            time_based_batching=g["time_based"],
            num_processes=g["procs_opt"],
            try_add_blocked_jobs=g["try_add"],
            max_nodes=scen["max_nodes"],
            poll_interval=scen["poll"],
            generate_reports=scen["reports"],
            resource_monitor_type="none",
            verbose=g.get("verbose", False),
            distributed_submitter=g.get("dsub", True),
            dry_run=scen.get("dry_run", False),
            **({"singularity_params": _sing_off()} if g.get("sing_off") else {}),
        )
        if scen.get("cli_params") == "file":
            with open(os.path.join(root, "submitter_params.json"), "w") as f:
                f.write(sp.json())
        elif scen.get("cli_params"):
            with open(os.path.join(root, "hpc_config.json"), "w") as f:
                f.write(hpc.json())
        else:
            cfg.append_submission_group(SubmissionGroup(name=g["name"], submitter_params=sp))
    cfg.dump(os.path.join(root, "config.json"))
