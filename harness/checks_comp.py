"""Check specifications for the properties decided by component harnesses (real JADE classes/functions driven
in-process or as real subprocesses, with monitors at their boundary)."""
import random

from core import sub_seed, total, hist

COMP_ASSUMPTIONS = [
    "the component harness drives JADE's real classes/functions; stand-ins exist only at the external-command boundary",
    "expectations are written from the property text and JADE's documentation, not copied from the implementation",
]


class CompSpec:
    level = "exploration"
    zygote = False
    aggregate = True
    task_timeout = 900
    assumptions = COMP_ASSUMPTIONS

    def nontrivial(self, t, r):
        return False

    def sample(self, t, r):
        return {}

    def counters(self, tasks, results):
        return {}

    def floors(self, cov):
        return None


class C07(CompSpec):
    prop = "C07"
    rule = (
        "one real submitter round (JobSubmitter.create + Cluster.create + HpcSubmitter.run) per case with a recording stand-in at the sbatch boundary; quick: EVERY job list of <= 3 jobs "
        "(all listing orders x all acyclic dependency sets x estimates in {1,3} x group assignments over 2 groups) x a 9-point parameter grid x max-nodes in {None,1,2}, plus seeded "
        "random lists of 5-12 jobs; thorough: the <= 3-job scope on the full 20-point grid, every 4-job list on a 12-point grid, 50k random lists; a dry-run twin for every 4th case "
        "and every case of <= 2 jobs; the same oracle also sees every sbatch of the system campaigns (C01-C06); oracle per batch: 1 <= n <= batch size, or sum of estimates <= "
        "walltime x processes; one group; that group's #SBATCH lines and run options; unfinished blockers only with try-add-blocked and all in the batch; "
        "non-trivial = case with >= 2 batches or a blocked job placed; distinct = distinct (job list, parameters)"
    )

    def tasks(self, tier, seed):
        out = []
        if tier == "quick":
            nch = 28
            out += [{"fn": "comp.c07:chunk", "args": {"scope": "q3", "chunk": c, "nchunks": nch, "dry_every": 4}} for c in range(nch)]
            out += [{"fn": "comp.c07:chunk", "args": {"scope": "random", "seed": sub_seed(seed, c, "C07r"), "count": 250, "dry_every": 4}} for c in range(14)]
        else:
            out += [{"fn": "comp.c07:chunk", "args": {"scope": "f3", "chunk": c, "nchunks": 56, "dry_every": 4}} for c in range(56)]
            out += [{"fn": "comp.c07:chunk", "args": {"scope": "n4", "chunk": c, "nchunks": 280, "dry_every": 8}} for c in range(280)]
            out += [{"fn": "comp.c07:chunk", "args": {"scope": "random", "seed": sub_seed(seed, c, "C07r"), "count": 900, "dry_every": 4}} for c in range(56)]
        return out

    also = ("C01",)

    def exhaustive(self, tier, tasks, results):
        # true for the enumerated sub-scope (reported separately in the counters); the random part is sampling
        return all(not r.get("error") for t, r in zip(tasks, results) if t["args"]["scope"] != "random")

    def counters(self, tasks, results):
        en = [(t, r) for t, r in zip(tasks, results) if t["args"]["scope"] != "random" and not r.get("error")]
        rn = [(t, r) for t, r in zip(tasks, results) if t["args"]["scope"] == "random" and not r.get("error")]
        return {
            "exhaustive_scope": sorted({t["args"]["scope"] for t, _ in en}),
            "exhaustive_scope_meaning": {"q3": "all job lists of <= 3 jobs, 9-point grid", "f3": "all job lists of <= 3 jobs, 20-point grid", "n4": "all job lists of 4 jobs, 12-point grid"},
            "enumerated_cases": sum(r["cases"] for _, r in en),
            "random_cases": sum(r["cases"] for _, r in rn),
            "batches_checked": sum(r["batches"] for _, r in en + rn),
            "dry_run_twins": sum(r["dry_twins"] for _, r in en + rn),
            "explanation": "exhaustive: true refers to the enumerated small scope only; the random lists of 5-12 jobs are sampled",
        }

    def floors(self, cov):
        if cov.get("enumerated_cases", 0) < 5000:
            return "fewer than 5000 enumerated cases"
        if cov.get("dry_run_twins", 0) < 500:
            return "fewer than 500 dry-run twins"
        return None


class C08(CompSpec):
    prop = "C08"
    zygote = True
    aggregate = False
    task_timeout = 150
    n = {"quick": 1000, "thorough": 12000}
    rule = (
        "histories of 2-6 writer processes (real ResultsAggregator.append; several writers per batch file, 1-3 batch files, 1-6 rows each, every row with a unique name) and 1-3 "
        "collector processes (real ResultsAggregator.load(out).process_results(), 1-4 rounds each) scheduled at audit granularity (marker create/remove on the consolidated and "
        "per-node locks, directory scan, each open/remove) under walk / sticky / pct policies; call and return events recorded at the actors' boundary; oracle: multiset union of all "
        "collections (+ one final collection) == rows appended, fields equal, list_results equal, consolidated file parses with csv and with JADE's reader at every instant its lock "
        "is free; non-trivial = history with >= 1 append that found its node file deleted (header re-creation) and >= 1 lock contention; distinct = hash of the shared-object operation sequence"
    )

    def tasks(self, tier, seed):
        out = []
        for i in range(self.n[tier]):
            s = sub_seed(seed, i, "C08")
            rng = random.Random(s)
            nb = rng.randint(1, 3)
            writers = []
            for b in range(1, nb + 1):
                for w in range(rng.randint(1, 3)):
                    writers.append({"batch": b, "w": w, "n": rng.randint(1, 6)})
            scen = {
                "kind": "c08",
                "writers": writers[:6],
                "collectors": [rng.randint(1, 4) for _ in range(rng.randint(1, 3))],
                "policy": {"kind": rng.choice(["walk", "sticky", "pct"]), "sticky": rng.choice([0.5, 0.8]), "pct_d": rng.randint(1, 4), "time_w": rng.choice([0.0, 0.3])},
                "filelock": rng.choice(["", "", "legacy"]),
                "hashseed": rng.choice([0, 1]),
            }
            out.append({"fn": "sim", "args": {"scen": scen, "seed": s, "id": i, "cls": "comp.c08:S8", "prepare": "comp.c08:prepare", "trace_n": 150}})
        return out

    def shape(self, t, r):
        sc = t["args"]["scen"]
        return f"{len(sc['writers'])}w{len(sc['collectors'])}c"

    def nontrivial(self, t, r):
        return (r.get("header_recreations") or 0) >= 1 and (r.get("lock_contentions") or 0) >= 1

    def sample(self, t, r):
        sc = t["args"]["scen"]
        return {"writers": sc["writers"], "collector_rounds": sc["collectors"], "policy": sc["policy"]["kind"], "lock_mode": sc["filelock"] or "installed filelock", "seed": t["args"]["seed"],
                "observed": {k: r.get(k) for k in ("rows", "collections", "parse_checks", "header_recreations", "lock_contentions", "steps", "switches", "sig")}}

    def counters(self, tasks, results):
        ok = [r for r in results if not r.get("error")]
        return {
            "rows_appended": total(ok, "rows"),
            "collections": total(ok, "collections"),
            "parse_checks_at_lock_free_instants": total(ok, "parse_checks"),
            "appends_that_recreated_a_deleted_node_file": total(ok, "header_recreations"),
            "lock_contentions": total(ok, "lock_contentions"),
            "scheduling_steps": total(ok, "steps"),
            "context_switches": total(ok, "switches"),
            "history_events": total(ok, "history_events"),
            "policies": hist(t["args"]["scen"]["policy"]["kind"] for t in tasks),
        }

    def floors(self, cov):
        if cov.get("appends_that_recreated_a_deleted_node_file", 0) < 50:
            return "header re-creation path exercised fewer than 50 times"
        if cov.get("parse_checks_at_lock_free_instants", 0) < 5000:
            return "fewer than 5000 parse checks"
        return None


class C10(CompSpec):
    prop = "C10"
    zygote = True
    aggregate = False
    task_timeout = 150
    n = {"quick": 500, "thorough": 8000}
    nsim = {"quick": 100, "thorough": 1500}
    rule = (
        "histories of 2-5 handles on 1-3 virtual hosts (two handles may share a host), each a real process running a seeded program over Cluster's public API: deserialize with "
        "try_promote_to_submitter, update_job_status / complete_hpc_job_id as submitter, demote_from_submitter, and deliberately out-of-date copies attempting mark_canceled / "
        "serialize_jobs / promote_to_submitter; scheduled at audit granularity; oracles: (1) interval history check - definite hold = [promotion returned, demote called), possible "
        "hold = [promotion called, demote returned]; two definite holds never overlap, a refusal needs a possible holder; (2) after every single step of every actor the on-disk "
        "versions moved by 0 or +1 (no write from a copy that was not current); (3) an out-of-date write ends in the matching version-mismatch error and the SHA-256 of the four "
        "state files is unchanged across each of its steps; plus a slice of full simulations with many user rounds where the submitter field seen at lock-free instants must only "
        "move None->host->None and be released by the process that took it; non-trivial = history with >= 2 overlapping promotion attempts and >= 1 out-of-date write attempt"
    )

    def tasks(self, tier, seed):
        from checks_sim import sim_task
        from sim import scenario

        out = []
        for i in range(self.n[tier]):
            s = sub_seed(seed, i, "C10")
            rng = random.Random(s)
            nh = rng.randint(2, 5)
            hosts = ["hostA", "hostB", "hostC"][: rng.randint(1, 3)]
            handles = []
            for k in range(nh):
                prog = []
                for _ in range(rng.randint(2, 6)):
                    prog += rng.choice([["promote", "work", "demote"], ["promote", "demote"], ["load"], ["stale_write"], ["stale_write_jobs"], ["stale_promote"], ["promote", "work", "complete_id", "work", "demote"], ["load", "promote", "work", "demote", "stale_write"]])
                handles.append({"host": rng.choice(hosts), "prog": prog})
            scen = {
                "kind": "c10",
                "handles": handles,
                "policy": {"kind": rng.choice(["walk", "sticky", "pct"]), "sticky": rng.choice([0.5, 0.8]), "pct_d": rng.randint(1, 4), "time_w": 0.0},
                "filelock": rng.choice(["", "", "", "", "legacy"]),
                "hashseed": rng.choice([0, 1]),
            }
            out.append({"fn": "sim", "args": {"scen": scen, "seed": s, "id": i, "cls": "comp.c10:S10", "prepare": "comp.c10:prepare", "trace_n": 150}})
        for i in range(self.nsim[tier]):
            s = sub_seed(seed, i, "C10sim")
            rng = random.Random(s)
            scen = scenario.normalize(scenario.gen_scenario(rng, max_jobs=8))
            scen["user"] = {"try_submit": rng.choice([3, 5, 8]), "show_status": rng.choice([1, 3]), "p": 0.05}
            out.append(sim_task(scen, s, len(out)))
        return out

    def shape(self, t, r):
        sc = t["args"]["scen"]
        return f"{len(sc.get('handles') or [])}h" if sc.get("kind") == "c10" else "sim"

    def nontrivial(self, t, r):
        if t["args"]["scen"].get("kind") != "c10":
            return (r.get("promoted_rounds") or 0) >= 3 and (r.get("refused_rounds") or 0) >= 1
        return (r.get("overlapping_promotes") or 0) >= 2 and (r.get("stale_attempts") or 0) >= 1

    def sample(self, t, r):
        sc = t["args"]["scen"]
        if sc.get("kind") != "c10":
            return {"full_simulation_seed": t["args"]["seed"], "observed": {k: r.get(k) for k in ("promoted_rounds", "refused_rounds", "obs", "round_hosts")}}
        return {"handles": sc["handles"], "policy": sc["policy"]["kind"], "lock_mode": sc["filelock"] or "installed filelock", "seed": t["args"]["seed"],
                "observed": {k: r.get(k) for k in ("ops", "promotions", "refusals", "overlapping_promotes", "stale_attempts", "stale_rejected", "timeouts", "steps", "switches", "sig")}}

    def counters(self, tasks, results):
        ok = [r for t, r in zip(tasks, results) if not r.get("error") and t["args"]["scen"].get("kind") == "c10"]
        sims = [r for t, r in zip(tasks, results) if not r.get("error") and t["args"]["scen"].get("kind") != "c10"]
        return {
            "component_histories": len(ok),
            "operations": total(ok, "ops"),
            "promotions": total(ok, "promotions"),
            "refusals": total(ok, "refusals"),
            "overlapping_promotion_attempts": total(ok, "overlapping_promotes"),
            "out_of_date_write_attempts": total(ok, "stale_attempts"),
            "of_which_rejected": total(ok, "stale_rejected"),
            "lock_timeouts_after_poisoned_marker": total(ok, "timeouts"),
            "actor_steps_with_version_check": total(ok, "steps_version_checked"),
            "context_switches": total(ok, "switches"),
            "full_simulations": len(sims),
            "promoted_rounds_in_simulations": total(sims, "promoted_rounds"),
            "refused_rounds_in_simulations": total(sims, "refused_rounds"),
            "status_observations_in_simulations": total(sims, "obs"),
        }

    def floors(self, cov):
        if cov.get("overlapping_promotion_attempts", 0) < 200:
            return "fewer than 200 overlapping promotion attempts"
        if cov.get("of_which_rejected", 0) < 50:
            return "fewer than 50 out-of-date writes reached the rejection oracle"
        return None


SPECS = {c.prop: c for c in (C07, C08, C10)}
