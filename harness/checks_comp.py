"""Check specifications for the properties decided by component harnesses (real JADE classes/functions driven
in-process or as real subprocesses, with monitors at their boundary)."""
import random

from core import sub_seed, total, hist

COMP_ASSUMPTIONS = [
    "the component harness drives JADE's real classes/functions; stand-ins exist only at the external-command boundary",
    "expectations are written from the property text and JADE's documentation, not copied from the implementation",
]


class CompSpec:
    level = "exploration"
    zygote = False
    aggregate = True
    task_timeout = 900
    assumptions = COMP_ASSUMPTIONS

    def nontrivial(self, t, r):
        return False

    def sample(self, t, r):
        return {}

    def counters(self, tasks, results):
        return {}

    def floors(self, cov):
        return None


class C07(CompSpec):
    prop = "C07"
    rule = (
        "one real submitter round (JobSubmitter.create + Cluster.create + HpcSubmitter.run) per case with a recording stand-in at the sbatch boundary; quick: EVERY job list of <= 3 jobs "
        "(all listing orders x all acyclic dependency sets x estimates in {1,3} x group assignments over 2 groups) x a 9-point parameter grid x max-nodes in {None,1,2}, plus seeded "
        "random lists of 5-12 jobs; thorough: the <= 3-job scope on the full 20-point grid, every 4-job list on a 12-point grid, 50k random lists; a dry-run twin for every 4th case "
        "and every case of <= 2 jobs; the same oracle also sees every sbatch of the system campaigns (C01-C06); oracle per batch: 1 <= n <= batch size, or sum of estimates <= "
        "walltime x processes, the walltime being what the scheduler understands by the --time value that was written (minutes, minutes:seconds, h:m:s, d-h[:m[:s]]; a third of the random "
        "cases spell it non-canonically, incl. spellings JADE refuses up front); one group; that group's #SBATCH lines and run options; unfinished blockers only with try-add-blocked and all in the batch; "
        "non-trivial = case with >= 2 batches or a blocked job placed; distinct = distinct (job list, parameters)"
    )

    def tasks(self, tier, seed):
        out = []
        if tier == "quick":
            nch = 28
            out += [{"fn": "comp.c07:chunk", "args": {"scope": "q3", "chunk": c, "nchunks": nch, "dry_every": 4}} for c in range(nch)]
            out += [{"fn": "comp.c07:chunk", "args": {"scope": "random", "seed": sub_seed(seed, c, "C07r"), "count": 250, "dry_every": 4}} for c in range(14)]
        else:
            out += [{"fn": "comp.c07:chunk", "args": {"scope": "f3", "chunk": c, "nchunks": 56, "dry_every": 4}} for c in range(56)]
            out += [{"fn": "comp.c07:chunk", "args": {"scope": "n4", "chunk": c, "nchunks": 280, "dry_every": 8}} for c in range(280)]
            out += [{"fn": "comp.c07:chunk", "args": {"scope": "random", "seed": sub_seed(seed, c, "C07r"), "count": 900, "dry_every": 4}} for c in range(56)]
        # whole simulated submissions, half of them followed by resubmit-jobs: the same per-batch oracle judges every batch handed
        # to the simulated sbatch in later rounds and in resubmissions (blockers = the ones that are rerun)
        from checks_sim import sim_task
        from sim import scenario

        for k in range({"quick": 60, "thorough": 700}[tier]):
            s = sub_seed(seed, k, "C07sim")
            rng = random.Random(s)
            scen = scenario.normalize(scenario.gen_scenario(rng, max_jobs=9, min_jobs=4, shapes=["random", "diamond", "fanin", "chain", "tri", "tri"], fail_p=0.5))
            for g in scen["groups"]:
                g["try_add"] = True
                g["batch"] = rng.randint(2, 3)
            if scen["shape"] == "tri":
                # the head of each triple fails the first time, the others succeed: a resubmission pulls them in transitively
                for j in scen["jobs"]:
                    j["rc"] = rng.choice([1, 2]) if not j["blocked_by"] and rng.random() < 0.7 else 0
                    j["flag"] = False
                scen["groups"] = scen["groups"][:1]
                for j in scen["jobs"]:
                    j["group"] = scen["groups"][0]["name"]
                scen["groups"][0]["time_based"] = False
            if k % 5 == 2:
                for g in scen["groups"]:  # equivalent spellings of the same walltime; the script must carry them verbatim
                    g["wall_spelling"] = rng.choice(["hhms", "dhms", "h_m_s"])
                scenario.normalize(scen)
            if k % 4 == 0:
                scenario.to_cli_mode(scen)  # limits and run options given as options of submit-jobs
            t = sim_task(scen, s, len(out))
            if k % 2:
                scen["resubmit"] = {"rounds": [{"failed": True, "missing": True, "successful": rng.random() < 0.3}]}
                if k % 4 == 3:
                    # resubmit-jobs -s: the groups get new limits and HPC parameters; every batch of the resubmission is judged by them
                    scen["resubmit"]["rounds"][0]["groups"] = scenario.changed_groups(rng, scen["groups"])
                t["args"]["cls"] = "sim.resub:ResubSim"
            out.append(t)
        return out

    zygote = True

    also = ("C01",)

    def exhaustive(self, tier, tasks, results):
        # true for the enumerated sub-scope (reported separately in the counters); the random part is sampling
        return all(not r.get("error") for t, r in zip(tasks, results) if t["fn"] != "sim" and t["args"]["scope"] != "random")

    def counters(self, tasks, results):
        sims = [r for t, r in zip(tasks, results) if t["fn"] == "sim" and not r.get("error")]
        pairs = [(t, r) for t, r in zip(tasks, results) if t["fn"] != "sim"]
        en = [(t, r) for t, r in pairs if t["args"]["scope"] != "random" and not r.get("error")]
        rn = [(t, r) for t, r in pairs if t["args"]["scope"] == "random" and not r.get("error")]
        return {
            "simulated_submissions": len(sims),
            "of_which_with_a_resubmission": sum(1 for r in sims if (r.get("epochs") or 1) > 1),
            "batches_checked_at_the_simulated_sbatch": sum(r.get("sbatches") or 0 for r in sims),
            "exhaustive_scope": sorted({t["args"]["scope"] for t, _ in en}),
            "exhaustive_scope_meaning": {"q3": "all job lists of <= 3 jobs, 9-point grid", "f3": "all job lists of <= 3 jobs, 20-point grid", "n4": "all job lists of 4 jobs, 12-point grid"},
            "enumerated_cases": sum(r["cases"] for _, r in en),
            "random_cases": sum(r["cases"] for _, r in rn),
            "batches_checked": sum(r["batches"] for _, r in en + rn),
            "dry_run_twins": sum(r["dry_twins"] for _, r in en + rn),
            "walltime_spellings_in_random_cases": {k: sum((r.get("walltime_spellings") or {}).get(k, 0) for _, r in rn) for k in ("hms", "hhms", "dhms", "h_m_s", "ms", "m")},
            "random_cases_refused_up_front_nothing_handed_over": sum(r.get("refused_up_front") or 0 for _, r in rn),
            "explanation": "exhaustive: true refers to the enumerated small scope only; the random lists of 5-12 jobs are sampled",
        }

    def floors(self, cov):
        if cov.get("enumerated_cases", 0) < 5000:
            return "fewer than 5000 enumerated cases"
        if cov.get("dry_run_twins", 0) < 500:
            return "fewer than 500 dry-run twins"
        return None


class C08(CompSpec):
    prop = "C08"
    zygote = True
    aggregate = False
    task_timeout = 150
    n = {"quick": 1000, "thorough": 12000}
    rule = (
        "histories of 2-6 writer processes (real ResultsAggregator.append; several writers per batch file, 1-3 batch files, 1-6 rows each, every row with a unique name) and 1-3 "
        "collector processes (real ResultsAggregator.load(out).process_results(), 1-4 rounds each) scheduled at audit granularity (marker create/remove on the consolidated and "
        "per-node locks, directory scan, each open/remove) under walk / sticky / pct policies; call and return events recorded at the actors' boundary; oracle: multiset union of all "
        "collections (+ one final collection) == rows appended, fields equal, list_results equal, consolidated file parses with csv and with JADE's reader at every instant its lock "
        "is free; plus free-running histories (no scheduler: 2-6 real writer processes appending 5-40 rows each while 1-3 collector processes loop, real clocks) with the same exactly-once "
        "oracle; non-trivial = history with >= 1 append that found its node file deleted (header re-creation) and >= 1 lock contention (free-running: >= 5 collections, >= 2 writers); distinct = hash of "
        "the shared-object operation sequence"
    )

    def tasks(self, tier, seed):
        out = []
        for i in range(self.n[tier]):
            s = sub_seed(seed, i, "C08")
            rng = random.Random(s)
            nb = rng.randint(1, 3)
            writers = []
            for b in range(1, nb + 1):
                for w in range(rng.randint(1, 3)):
                    writers.append({"batch": b, "w": w, "n": rng.randint(1, 6)})
            scen = {
                "kind": "c08",
                "writers": writers[:6],
                "collectors": [rng.randint(1, 4) for _ in range(rng.randint(1, 3))],
                "policy": {"kind": rng.choice(["walk", "sticky", "pct"]), "sticky": rng.choice([0.5, 0.8]), "pct_d": rng.randint(1, 4), "time_w": rng.choice([0.0, 0.3])},
                "filelock": rng.choice(["", "", "legacy"]),
                "hashseed": rng.choice([0, 1]),
            }
            if i % 5 == 2:
                # an output directory whose name contains characters that mean something to glob / fnmatch / the shell
                scen["outname"] = rng.choice(["out[1]", "run[ab]/out", "o*ut", "out?", "sweep[2]/output"])
            if i % 5 == 4:
                # slow-holder slice: the k-th critical point reached inside a results-lock hold stalls for longer than the lock timeout
                scen["slow_holder"] = rng.randint(1, 14)
            if i % 5 in (1, 3) and "slow_holder" not in scen:
                # resubmission slice: some / all / none of the collected rows are pruned (the consolidated file is rewritten), then
                # the rerun jobs' results are appended and collected by a second generation of writers and collectors
                scen["resub"] = {"prune": rng.choice(["some", "some", "all", "none"]), "writers2": rng.randint(1, 3), "collectors2": [rng.randint(1, 3) for _ in range(rng.randint(1, 2))]}
            out.append({"fn": "sim", "args": {"scen": scen, "seed": s, "id": i, "cls": "comp.c08:S8", "prepare": "comp.c08:prepare", "trace_n": 150}})
        # free-running histories: real parallel processes, no scheduler (what the serialized model treats as atomic)
        nfree = {"quick": 14, "thorough": 280}[tier]
        per = {"quick": 2, "thorough": 5}[tier]
        for k in range(nfree):
            out.append({"fn": "comp.c08:free_run", "args": {"seed": sub_seed(seed, k, "C08free"), "count": per}, "timeout": 600})
        return out

    def shape(self, t, r):
        if t["fn"] != "sim":
            return "free"
        sc = t["args"]["scen"]
        return f"{len(sc['writers'])}w{len(sc['collectors'])}c"

    def nontrivial(self, t, r):
        if t["fn"] != "sim":
            return len(r.get("nontrivial_hashes") or []) >= 1
        return (r.get("header_recreations") or 0) >= 1 and (r.get("lock_contentions") or 0) >= 1

    def sample(self, t, r):
        if t["fn"] != "sim":
            return (r.get("samples") or [{}])[0]
        sc = t["args"]["scen"]
        return {"writers": sc["writers"], "collector_rounds": sc["collectors"], "policy": sc["policy"]["kind"], "lock_mode": sc["filelock"] or "installed filelock", "seed": t["args"]["seed"],
                "observed": {k: r.get(k) for k in ("rows", "collections", "parse_checks", "header_recreations", "lock_contentions", "steps", "switches", "sig")}}

    def counters(self, tasks, results):
        ok = [r for r in results if not r.get("error")]
        return {
            "rows_appended": total(ok, "rows"),
            "collections": total(ok, "collections"),
            "parse_checks_at_lock_free_instants": total(ok, "parse_checks"),
            "appends_that_recreated_a_deleted_node_file": total(ok, "header_recreations"),
            "lock_contentions": total(ok, "lock_contentions"),
            "scheduling_steps": total(ok, "steps"),
            "context_switches": total(ok, "switches"),
            "history_events": total(ok, "history_events"),
            "policies": hist(t["args"]["scen"]["policy"]["kind"] for t in tasks if t["fn"] == "sim"),
            "slow_holder_histories": sum(1 for t in tasks if t["fn"] == "sim" and t["args"]["scen"].get("slow_holder")),
            "slow_holder_histories_with_a_stall_beyond_the_lock_timeout": sum(1 for r in ok if r.get("slow_holder_stalled")),
            "slow_holder_stall_sites": hist(r.get("slow_holder_at") for r in ok if r.get("slow_holder_stalled")),
            "appends_that_failed_loudly_with_a_lock_timeout": total(ok, "loud_appends"),
            "collections_that_failed_loudly_with_a_lock_timeout": total(ok, "loud_collections"),
            "resubmission_histories_prune_then_second_generation": sum(1 for r in ok if r.get("resub_pruned_kept_new")),
            "resubmission_rows_pruned_kept_rewritten": [sum((r.get("resub_pruned_kept_new") or [0, 0, 0])[k] for r in ok) for k in range(3)],
            "free_running_histories": sum(r.get("cases") or 0 for r in ok if r.get("free_running")),
            "free_running_rows": sum(r.get("rows") or 0 for r in ok if r.get("free_running")),
            "free_running_collections": sum(r.get("collections") or 0 for r in ok if r.get("free_running")),
        }

    def floors(self, cov):
        if cov.get("free_running_histories", 0) < 10:
            return "fewer than 10 free-running histories"
        if cov.get("appends_that_recreated_a_deleted_node_file", 0) < 50:
            return "header re-creation path exercised fewer than 50 times"
        if cov.get("parse_checks_at_lock_free_instants", 0) < 5000:
            return "fewer than 5000 parse checks"
        return None


class C10(CompSpec):
    prop = "C10"
    zygote = True
    aggregate = False
    task_timeout = 150
    n = {"quick": 500, "thorough": 8000}
    nsim = {"quick": 100, "thorough": 1500}
    rule = (
        "histories of 2-5 handles on 1-3 virtual hosts (two handles may share a host), each a real process running a seeded program over Cluster's public API: deserialize with "
        "try_promote_to_submitter, update_job_status / complete_hpc_job_id as submitter, demote_from_submitter, and deliberately out-of-date copies attempting mark_canceled / "
        "serialize_jobs / promote_to_submitter / demote_from_submitter (a copy loaded while another handle of the same host held the role); scheduled at audit granularity; oracles: (1) interval history check - definite hold = [promotion returned, demote called), possible "
        "hold = [promotion called, demote returned]; two definite holds never overlap, a refusal needs a possible holder; (2) after every single step of every actor the on-disk "
        "versions moved by 0 or +1 (no write from a copy that was not current); (3) an out-of-date write ends in the matching version-mismatch error and the SHA-256 of the four "
        "state files is unchanged across each of its steps; a quarter of the histories kills one writer at its k-th file operation inside a write (staleness is then judged against the newest "
        "version visible on disk, version file or state file); plus a slice of full simulations with many user rounds where the submitter field seen at lock-free instants must only "
        "move None->host->None and be released by the process that took it; non-trivial = history with >= 2 overlapping promotion attempts and >= 1 out-of-date write attempt"
    )

    def tasks(self, tier, seed):
        from checks_sim import sim_task
        from sim import scenario

        out = []
        for i in range(self.n[tier]):
            s = sub_seed(seed, i, "C10")
            rng = random.Random(s)
            nh = rng.randint(2, 5)
            hosts = ["hostA", "hostB", "hostC"][: rng.randint(1, 3)]
            handles = []
            for k in range(nh):
                prog = []
                for _ in range(rng.randint(2, 6)):
                    prog += rng.choice([["promote", "work", "demote"], ["promote", "demote"], ["load"], ["stale_write"], ["stale_write_jobs"], ["stale_promote"], ["stale_demote"], ["load", "stale_demote"], ["promote", "work", "complete_id", "work", "demote"], ["load", "promote", "work", "demote", "stale_write"]])
                handles.append({"host": rng.choice(hosts), "prog": prog})
            scen = {
                "kind": "c10",
                "handles": handles,
                "policy": {"kind": rng.choice(["walk", "sticky", "pct"]), "sticky": rng.choice([0.5, 0.8]), "pct_d": rng.randint(1, 4), "time_w": 0.0},
                "filelock": rng.choice(["", "", "", "", "legacy"]),
                "hashseed": rng.choice([0, 1]),
            }
            if i % 4 == 3:
                # a writer dies in the middle of one of its writes (at its k-th file operation inside promote / update / demote);
                # whatever is left on disk, a copy older than the newest state on disk must still be rejected.  Handles share
                # one host so that the installed lock library can break the dead writer's marker.
                scen["kill"] = {"handle": rng.randrange(nh), "k": rng.randint(1, 25)}
                scen["filelock"] = ""
                for h in handles:
                    h["host"] = "hostA"
                    h["prog"] = h["prog"] + ["load", "promote", "work", "demote", "stale_write", "stale_promote"]
            elif i % 8 == 1:
                # a handle stalls inside a cluster-lock hold for longer than the lock timeout: the others must fail loudly and leave its lock alone
                scen["slow_holder"] = rng.randint(1, 12)
            out.append({"fn": "sim", "args": {"scen": scen, "seed": s, "id": i, "cls": "comp.c10:S10", "prepare": "comp.c10:prepare", "trace_n": 150}})
        for i in range(self.nsim[tier]):
            s = sub_seed(seed, i, "C10sim")
            rng = random.Random(s)
            scen = scenario.normalize(scenario.gen_scenario(rng, max_jobs=8))
            scen["user"] = {"try_submit": rng.choice([3, 5, 8]), "show_status": rng.choice([1, 3]), "p": 0.05}
            t = sim_task(scen, s, len(out))
            if i % 2:
                # commands that must NOT get the role while somebody holds it: resubmit-jobs on the incomplete submission (often
                # from the holder's own host) and cancel-jobs late in the run
                scen["resubmit"] = {"early_p": rng.choice([0.05, 0.2]), "rounds": []}
                scen["policy"]["park_p"] = rng.choice([0.2, 0.4])
                if i % 4 == 3:
                    scen["cancel"] = rng.choice([0.01, 0.05])
                    scen["cancel_host"] = rng.choice(["login", "login2"])
                t["args"]["cls"] = "sim.resub:ResubSim"
            elif i % 4 == 0:
                # resubmit-jobs in the window in which the completing round has set the flag but still holds the role
                scen["resub_in_completion_window"] = 0.7
                scen["policy"]["park_p"] = rng.choice([0.0, 0.2])
            elif i % 4 == 2:
                # the same `jade submit-jobs` started twice at once for one new output directory (srun -n 2, a wrapper script
                # run twice): exactly one of them may create the submission, the other must leave without touching it
                scen["double_submit"] = True
            out.append(t)
        return out

    def shape(self, t, r):
        sc = t["args"]["scen"]
        return f"{len(sc.get('handles') or [])}h" if sc.get("kind") == "c10" else "sim"

    def nontrivial(self, t, r):
        if t["args"]["scen"].get("kind") != "c10":
            return (r.get("promoted_rounds") or 0) >= 3 and (r.get("refused_rounds") or 0) >= 1
        return (r.get("overlapping_promotes") or 0) >= 2 and (r.get("stale_attempts") or 0) >= 1

    def sample(self, t, r):
        sc = t["args"]["scen"]
        if sc.get("kind") != "c10":
            return {"full_simulation_seed": t["args"]["seed"], "observed": {k: r.get(k) for k in ("promoted_rounds", "refused_rounds", "obs", "round_hosts")}}
        return {"handles": sc["handles"], "policy": sc["policy"]["kind"], "lock_mode": sc["filelock"] or "installed filelock", "seed": t["args"]["seed"],
                "observed": {k: r.get(k) for k in ("ops", "promotions", "refusals", "overlapping_promotes", "stale_attempts", "stale_rejected", "timeouts", "steps", "switches", "sig")}}

    def counters(self, tasks, results):
        ok = [r for t, r in zip(tasks, results) if not r.get("error") and t["args"]["scen"].get("kind") == "c10"]
        sims = [r for t, r in zip(tasks, results) if not r.get("error") and t["args"]["scen"].get("kind") != "c10"]
        return {
            "component_histories": len(ok),
            "operations": total(ok, "ops"),
            "promotions": total(ok, "promotions"),
            "refusals": total(ok, "refusals"),
            "overlapping_promotion_attempts": total(ok, "overlapping_promotes"),
            "out_of_date_write_attempts": total(ok, "stale_attempts"),
            "of_which_rejected": total(ok, "stale_rejected"),
            "lock_timeouts_after_poisoned_marker": total(ok, "timeouts"),
            "actor_steps_with_version_check": total(ok, "steps_version_checked"),
            "histories_with_a_writer_killed_mid_write": sum(1 for r in ok if r.get("killed_handle")),
            "histories_with_a_holder_stalled_beyond_the_lock_timeout": sum(1 for r in ok if r.get("slow_holder_stalled")),
            "kill_sites": hist(r.get("kill_site") for r in ok if r.get("kill_site")),
            "out_of_date_writes_judged_after_a_kill": total(ok, "stale_after_kill"),
            "context_switches": total(ok, "switches"),
            "full_simulations": len(sims),
            "promoted_rounds_in_simulations": total(sims, "promoted_rounds"),
            "refused_rounds_in_simulations": total(sims, "refused_rounds"),
            "status_observations_in_simulations": total(sims, "obs"),
            "simulations_with_resubmit_jobs_in_the_completion_window": sum(1 for r in sims if r.get("window_resub")),
            "of_which_the_command_was_refused_nonzero_exit": sum(1 for r in sims if r.get("window_resub") and r.get("window_resub_rc") not in (0, None)),
            "refused_resubmit_commands_in_simulations": total(sims, "refusals_checked"),
        }

    def floors(self, cov):
        if cov.get("overlapping_promotion_attempts", 0) < 200:
            return "fewer than 200 overlapping promotion attempts"
        if cov.get("of_which_rejected", 0) < 50:
            return "fewer than 50 out-of-date writes reached the rejection oracle"
        return None


def merge_counts(results, key):
    out = {}
    for r in results:
        for k, v in (r.get(key) or {}).items():
            out[k] = out.get(k, 0) + v
    return out


class C17(CompSpec):
    prop = "C17"
    per_chunk = {"quick": 220, "thorough": 2500}
    rule = (
        "configurations generated over the public models (GenericCommandParameters with and without names, integer or string blockers, optional estimates / ext / append flags / "
        "lifecycle commands, 1-3 SubmissionGroups or the default group, SlurmConfig with random optional fields), dumped to JSON with dump(), reloaded with create_config_from_file(): "
        "job order, names, commands, blockers, flags, groups, estimates, lifecycle commands and serialize() must be equal; then the valid file must be accepted by "
        "JobSubmitter.run_submit_jobs (reaching a recorded sbatch) and each applicable single injected invalidity (dangling blocker, duplicate name, two unnamed entries with one job_id, unknown / missing group, duplicate "
        "group, differing max_nodes / poll_interval / hpc_type, estimate above walltime) must raise before any sbatch; non-trivial = >= 2 jobs with dependencies or >= 2 groups"
    )

    def tasks(self, tier, seed):
        return [{"fn": "comp.c17:chunk", "args": {"seed": sub_seed(seed, c, "C17"), "count": self.per_chunk[tier]}} for c in range(28)]

    def counters(self, tasks, results):
        ok = [r for r in results if not r.get("error")]
        return {"round_trips": total(ok, "cases"), "valid_configurations_submitted": total(ok, "acceptances"), "invalid_configurations_tried": total(ok, "injections"),
                "by_invalidity": merge_counts(ok, "inj_counts"), "rejection_exception_types": merge_counts(ok, "exc_types")}

    def floors(self, cov):
        if cov.get("round_trips", 0) < 1000:
            return "fewer than 1000 round trips"
        if len(cov.get("by_invalidity", {})) < 9:
            return "not every invalidity kind was tried"
        return None


class C18(CompSpec):
    prop = "C18"
    rule = (
        "(a) every subset of the 9 optional SlurmConfig fields (512, exhaustive) with random values/account/walltime/prefix, the batch's group being one of 1-3 groups with different settings at a random position: the script written by HpcManager.submit(dry_run) is parsed and "
        "its #SBATCH set compared with an independent expectation table, last line = srun <run script>; (b) random squeue listings over the whole SLURM state vocabulary (12 live, 12 "
        "terminal states, unknown tokens, absent ids, foreign ids, hostile whitespace / blank lines) served by a scripted squeue executable to a real HpcSubmitter.run() round: an id may "
        "leave the persisted active set only if absent or terminal; (c) 12 kinds of sbatch reply (valid, decorated, without id, garbage, empty, non-zero) served by a scripted sbatch to a "
        "real round: active set == ids really announced, failing sbatch executed 1+6 times; (d) random failure/success/permanent-error sequences against run_command with 0-7 retries: "
        "executions counted by the scripted command == expectation (<= retries+1, stop at first success, stop at a listed permanent error); (e) whole simulated submissions (first rounds, "
        "node rounds, parameters as submit-jobs options, resubmissions with -s <changed groups>): the script on disk at the instant of every sbatch carries the #SBATCH set, last line and run "
        "options of the group as recorded for the submission at that moment; non-trivial per part: >= 2 optional fields / "
        "listing mixing live and finished ids / unparsable reply / sequence starting with a failure"
    )
    cnt = {"quick": {"status": 120, "submit": 40, "retries": 200, "script_extra": 100}, "thorough": {"status": 600, "submit": 150, "retries": 1500, "script_extra": 1500}}

    def tasks(self, tier, seed):
        c = self.cnt[tier]
        out = [{"fn": "comp.c18:chunk", "args": {"part": "script", "all_subsets": True, "chunk": k, "nchunks": 4, "seed": sub_seed(seed, k, "C18a")}} for k in range(4)]
        out += [{"fn": "comp.c18:chunk", "args": {"part": "script", "count": c["script_extra"], "seed": sub_seed(seed, k, "C18a2")}} for k in range(4)]
        for part in ("status", "submit", "retries"):
            out += [{"fn": "comp.c18:chunk", "args": {"part": part, "count": c[part], "seed": sub_seed(seed, k, "C18" + part)}} for k in range(14)]
        # (e) the scripts of whole simulated submissions, read at the instant of every sbatch: first submissions, later rounds by
        # compute nodes, parameters given as submit-jobs options, and resubmissions with `-s <changed groups>` (new account /
        # walltime / options: the script must carry what the submission's recorded groups say from that command on)
        from checks_sim import sim_task
        from sim import scenario

        for k in range({"quick": 48, "thorough": 500}[tier]):
            s = sub_seed(seed, k, "C18sim")
            rng = random.Random(s)
            scen = scenario.normalize(scenario.gen_scenario(rng, max_jobs=7, min_jobs=3, fail_p=0.5))
            scen["script_prop"] = "C18"
            for g in scen["groups"]:
                g["batch"] = rng.randint(1, 3)
                if k % 3 == 1:
                    g["wall_spelling"] = rng.choice(["hhms", "dhms", "h_m_s"])
                if k % 3 == 2 and rng.random() < 0.7:
                    g["sing_off"] = True  # a Singularity section that is present but disabled
            scenario.normalize(scen)
            if k % 4 == 0:
                scenario.to_cli_mode(scen)
            t = sim_task(scen, s, len(out))
            if k % 2:
                scen["resubmit"] = {"rounds": [{"failed": True, "missing": True, "successful": rng.random() < 0.5}]}
                if k % 4 == 1 or not any(j["rc"] for j in scen["jobs"]):
                    scen["resubmit"]["rounds"][0]["successful"] = True
                scen["resubmit"]["rounds"][0]["groups"] = scenario.changed_groups(rng, scen["groups"])
                t["args"]["cls"] = "sim.resub:ResubSim"
            out.append(t)
        return out

    zygote = True

    def counters(self, tasks, results):
        sims = [r for t, r in zip(tasks, results) if t["fn"] == "sim" and not r.get("error")]
        ok = [r for t, r in zip(tasks, results) if t["fn"] != "sim" and not r.get("error")]
        out = {"simulated_submissions": len(sims), "scripts_read_at_the_simulated_sbatch": sum(r.get("sbatches") or 0 for r in sims),
               "simulated_resubmissions_with_changed_hpc_parameters": sum(1 for r in sims if (r.get("epochs") or 1) > 1),
               "simulated_submissions_with_a_disabled_singularity_section": sum(1 for t in tasks if t["fn"] == "sim" and any(g.get("sing_off") for g in t["args"]["scen"]["groups"]))}
        for r in ok:
            for k, v in (r.get("stats") or {}).items():
                if isinstance(v, int):
                    out[k] = out.get(k, 0) + v
                elif isinstance(v, list):
                    out[k] = sorted(set(out.get(k, [])) | set(v))
        out["cases_by_part"] = {}
        for r in ok:
            out["cases_by_part"][r["part"]] = out["cases_by_part"].get(r["part"], 0) + r["cases"]
        out["all_512_optional_field_subsets_enumerated"] = sum(r["cases"] for t, r in zip(tasks, results) if t["fn"] != "sim" and t["args"].get("all_subsets") and not r.get("error")) == 512
        return out

    def floors(self, cov):
        if not cov.get("all_512_optional_field_subsets_enumerated"):
            return "the 512 optional-field subsets were not all enumerated"
        if len(cov.get("states_seen", [])) < 25:
            return f"only {len(cov.get('states_seen', []))} distinct scheduler states/tokens exercised"
        for k in ("status_rounds", "submit_rounds", "retry_sequences"):
            if cov.get(k, 0) < 100:
                return f"{k} < 100"
        return None


class C19(CompSpec):
    prop = "C19"
    zygote = True
    aggregate = False
    task_timeout = 150
    n = {"quick": 260, "thorough": 4000}
    rule = (
        "submissions of 3-8 independent jobs whose commands are `probe` followed by 0-5 tokens over an alphabet of spaces, tabs, both quote characters, backslash, $ * ? ; | & # ~ = "
        "{ } ( ) < > ! ` %, empty arguments and non-ASCII, rendered with shlex.join, with hand-made double-quoted/escaped spelling, and with irregular inter-token whitespace; names over "
        "[A-Za-z0-9][A-Za-z0-9_.-]*; all append_job_name / append_output_dir combinations; exit codes 0, 1, 2, 77, 126, 127, 128, 200, 255; run through the real submit-jobs -> sbatch -> "
        "jade-internal run-jobs path; the probe reports argv / env at the process boundary; oracle: argv == shlex.split(command) + documented extras, JADE_JOB_NAME / JADE_RUNTIME_OUTPUT, "
        "own .o/.e files with exactly the job's tokens, row with name, real exit code, status finished and the HPC id of the node that ran it; in 30% of the runs the submission is started from inside another JADE job (JADE_JOB_NAME / JADE_RUNTIME_OUTPUT / JADE_SUBMISSION_GROUP of the outer job inherited by every process, batches included); non-trivial = run in which >= 3 jobs with "
        "at least one quoting character were checked; distinct by schedule signature and command set"
    )

    def tasks(self, tier, seed):
        from comp import c19

        out = []
        for i in range(self.n[tier]):
            s = sub_seed(seed, i, "C19")
            rng = random.Random(s)
            scen = c19.gen(rng, tier)
            out.append({"fn": "sim", "args": {"scen": scen, "seed": s, "id": i, "cls": "comp.c19:C19Sim", "trace_n": 100}})
        return out

    def shape(self, t, r):
        import hashlib

        return hashlib.sha1("|".join(j["command"] for j in t["args"]["scen"]["jobs"]).encode()).hexdigest()[:10]

    def nontrivial(self, t, r):
        hard = sum(1 for j in t["args"]["scen"]["jobs"] if any(c in j["command"] for c in "'\"\\$"))
        return (r.get("c19_checked") or 0) >= 3 and hard >= 1

    def sample(self, t, r):
        return {"jobs": [{k: j[k] for k in ("name", "command", "rc", "append_job_name", "append_output_dir")} for j in t["args"]["scen"]["jobs"][:4]], "seed": t["args"]["seed"], "jobs_checked": r.get("c19_checked")}

    def counters(self, tasks, results):
        ok = [r for r in results if not r.get("error")]
        return {"job_launches_checked": total(ok, "c19_checked"), "renderings": hist(j["style"] for t in tasks for j in t["args"]["scen"]["jobs"]),
                "exit_codes": hist(j["rc"] for t in tasks for j in t["args"]["scen"]["jobs"]),
                "append_flag_combinations": hist(f"{j['append_job_name']}/{j['append_output_dir']}" for t in tasks for j in t["args"]["scen"]["jobs"]),
                "runs_started_inside_another_jade_job_inherited_JADE_variables": sum(1 for t in tasks if t["args"]["scen"].get("inherit_env"))}

    def floors(self, cov):
        if cov.get("job_launches_checked", 0) < 500:
            return "fewer than 500 job launches checked"
        return None


class C20(CompSpec):
    prop = "C20"
    rule = (
        "(a) 1-6 real processes per case (forked, concurrent) log 0-40 generated events each through the real setup_event_logging + log_event, to their own *events.log files and to one "
        "shared file; events over 7 names (spaces, dots, non-ASCII), all JSON value types nested, quotes / newlines / backslashes / non-ASCII in strings, colliding timestamps; every event "
        "carries a unique id; EventsSummary(output) is built three times (fresh, again, preload=True): per name the multiset of (timestamp, source, category, message, data) must equal "
        "what was written, timestamps non-decreasing, all three equal; (b) sample sequences (increasing, decreasing, constant, zero, mixed, minimum first, maximum first; 1-50 samples) "
        "injected under ResourceMonitorAggregator for cpu/memory/disk/network and per-process statistics; the JSON written by finalize must carry the true min, max, mean; (c) result sets "
        "of 1-14 jobs over {successful, failed, canceled, missing} through the real completion step: results.json summary, missing list, partition and show_results totals; also checked on "
        "every completed simulation of the system campaigns; non-trivial = >= 10 events from >= 2 processes / >= 3 samples / >= 3 classes present"
    )
    cnt = {"quick": {"events": 80, "stats": 500, "tallies": 120}, "thorough": {"events": 400, "stats": 2500, "tallies": 700}}

    zygote = True

    def tasks(self, tier, seed):
        from checks_sim import sim_task
        from sim import scenario

        c = self.cnt[tier]
        out = []
        for part in ("events", "stats", "tallies"):
            out += [{"fn": "comp.c20:chunk", "args": {"part": part, "count": c[part], "seed": sub_seed(seed, k, "C20" + part)}} for k in range(14)]
        # the events and tallies that real JADE processes write during whole submissions (login + compute nodes appending to the
        # shared submit_jobs_events.log and to their own files): checked by the same clauses at the end of each simulation
        for k in range({"quick": 40, "thorough": 600}[tier]):
            s = sub_seed(seed, k, "C20sim")
            rng = random.Random(s)
            scen = scenario.normalize(scenario.gen_scenario(rng, max_jobs=8))
            scen["check_events"] = True
            scen["user"] = {"try_submit": rng.choice([0, 2]), "show_status": 0}
            if k % 2:
                # the jobs log events themselves (own events.log under job-outputs, kept open from start to end, one event at each)
                # while several batches run side by side and end at different times; the events handed to the log are the truth
                scen["job_events"] = True
                for j in scen["jobs"]:
                    if rng.random() < 0.6:
                        j["blocked_by"] = []
                for g in scen["groups"]:
                    g["time_based"] = False
                    g["batch"] = rng.randint(1, 3)
                scen["max_nodes"] = None
                scen["policy"]["finish_w"] = rng.choice([0.02, 0.05, 0.2])
                scenario.normalize(scen)
            t = sim_task(scen, s, len(out))
            if k % 4 == 3:
                # the jobs also log resource samples like a periodic resource monitor (kept as <name>.parquet in the events
                # directory), reports are generated at completion (which consolidates the events), and the submission is then
                # resubmitted and completes again: every event of both rounds must be in the summary
                scen["job_events"] = 2
                scen["reports"] = True
                if not any(j["rc"] for j in scen["jobs"]):
                    scen["jobs"][0]["rc"] = 1
                scen["resubmit"] = {"rounds": [{"failed": True, "missing": True, "successful": rng.random() < 0.3}]}
                t["args"]["cls"] = "sim.resub:ResubSim"
            out.append(t)
        return out

    def counters(self, tasks, results):
        ok = [r for r in results if not r.get("error")]
        out = {"cases_by_part": {}}
        out["simulated_submissions_checked"] = sum(1 for r in ok if r.get("events_checked"))
        out["events_logged_by_jobs_of_simulated_submissions_checked"] = sum(r.get("job_events_checked") or 0 for r in ok)
        out["events_written_by_real_jade_processes_checked"] = sum(r.get("events_checked") or 0 for r in ok)
        out["resource_samples_logged_by_jobs_checked_in_the_parquet_summary"] = sum(r.get("stat_samples_checked") or 0 for r in ok)
        out["simulated_submissions_with_reports_resubmitted_and_completed_again"] = sum(1 for r in ok if r.get("events_checked") and (r.get("epochs") or 1) > 1)
        ok = [r for r in ok if "part" in r]
        for r in ok:
            out["cases_by_part"][r["part"]] = out["cases_by_part"].get(r["part"], 0) + r["cases"]
            for k, v in (r.get("stats") or {}).items():
                if isinstance(v, int):
                    out[k] = out.get(k, 0) + v
                elif isinstance(v, dict):
                    d = out.setdefault(k, {})
                    for kk, vv in v.items():
                        d[kk] = d.get(kk, 0) + vv
        return out

    def floors(self, cov):
        if cov.get("events_written", 0) < 5000:
            return "fewer than 5000 events written"
        if cov.get("stat_sequences", 0) < 1000:
            return "fewer than 1000 statistic sequences"
        if cov.get("result_sets", 0) < 300:
            return "fewer than 300 result sets"
        return None


# slices added during validation (DESIGN 10.5): appended to the rules so that the evidence files describe them
_MORE = {
    C07: "; the simulated submissions include parameters given as submit-jobs options and resubmissions with changed group parameters (resubmit-jobs -s), judged by the new groups; walltime spellings judged by what the scheduler understands",
    C08: "; slices: a slow lock holder (a stall beyond the 300-s lock timeout inside a results-lock hold: waiting appends / collections must fail loudly, every append that returned is in the consolidated file exactly once), output directories with glob metacharacters, a resubmission in the middle (some / all / none of the collected rows pruned by clear_results_for_resubmission, then a second generation of writers and collectors: exactly-once over the second phase, kept rows unchanged)",
    C10: "; simulated submissions with refused resubmit-jobs / cancel-jobs on the holder's host and with submit-jobs started twice at once for one new output directory; a slice of histories with a writer killed in the middle of a write; resubmit-jobs in the completion window; a holder stalled beyond the lock timeout inside the cluster lock; monitor for lock markers of live holders removed by others",
    C19: "; a quarter of the scenarios use unnamed jobs (JADE names them str(job_id)); 30% of the runs started from inside another JADE job (inherited JADE_* variables); jobs killed by signals",
    C20: "; in half of the simulated submissions the jobs log events themselves (own events.log under job-outputs, kept open while they run): what they logged is the ground truth; a quarter also logs resource samples (parquet summary), generates reports and is resubmitted",
}
for _c, _t in _MORE.items():
    _c.rule = _c.rule + _t

SPECS = {c.prop: c for c in (C07, C08, C10, C17, C18, C19, C20)}
