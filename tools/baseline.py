#!/usr/bin/env python3
"""Run the repository's pinned suite with the hook guard OFF and compare with /root/.vp/BASELINE.json."""
import json, os, subprocess, sys, tempfile, xml.etree.ElementTree as ET
base = json.load(open("/root/.vp/BASELINE.json"))
out = tempfile.mktemp(suffix=".xml")
env = dict(os.environ); env.pop("NREL_JADE_VERIF", None)
subprocess.run(["/venv/bin/python", "-m", "pytest", "-ra", "-q", "-p", "no:cacheprovider", "--timeout=900", "--continue-on-collection-errors", f"--junitxml={out}"], cwd="/repo", env=env, stdout=subprocess.DEVNULL, stderr=subprocess.DEVNULL)
passed = set()
for tc in ET.parse(out).getroot().iter("testcase"):
    if not any(c.tag in ("failure", "error", "skipped") for c in tc):
        passed.add(f"{tc.get('classname')}::{tc.get('name')}")
os.remove(out)
want = set(base["stable_pass"])
missing = sorted(want - passed)
print(f"baseline: {len(want & passed)}/{len(want)} stable tests pass; newly failing: {missing}")
sys.exit(1 if missing else 0)
