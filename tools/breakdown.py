#!/venv/bin/python
"""tools/breakdown.py PROP tier : violations grouped by (prop,key,instant class) with one example task index each."""
import sys, os, re, collections
sys.path.insert(0, "/verif/harness")
import registry
from sim import pool
prop, tier = sys.argv[1], sys.argv[2]
spec = registry.SPECS[prop]()
tasks = spec.tasks(tier, int(os.environ.get("VERIF_SEED", "0")))
with pool.Context(zygote=getattr(spec, "zygote", True)) as ctx:
    res = pool.run_tasks(ctx, tasks, timeout=200)
    if hasattr(spec, "second_phase"):
        extra = spec.second_phase(tier, int(os.environ.get("VERIF_SEED", "0")), tasks, res)
        if extra:
            res += pool.run_tasks(ctx, extra, timeout=200); tasks += extra
    import json
    if os.environ.get("DUMP"):
        for i, r in enumerate(res):
            if any(v["key"] == os.environ["DUMP"] for v in r.get("violations", [])):
                json.dump({"task": tasks[i], "res": r}, open("/tmp/dump.json", "w"), default=str); break
c = collections.Counter(); ex = {}
for i, r in enumerate(res):
    for v in r.get("violations", []):
        m = re.search(r"\[at (.*?)\]", v["text"])
        w = re.sub(r"\d+", "N", m.group(1)) if m else ""
        k = (v["prop"], v["key"], w)
        c[k] += 1; ex.setdefault(k, i)
    if r.get("error"): c[("ERR", r["error"][:80], "")] += 1; ex.setdefault(("ERR", r["error"][:80], ""), i)
for k, n in sorted(c.items()): print(n, k, "e.g. task", ex[k])
