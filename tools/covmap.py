#!/usr/bin/env python3
"""tools/covmap.py Cxx [Cyy ...]: which lines of JADE do the campaigns of these checks execute?

Runs `./check Cxx quick` with VERIF_COV_DIR set: every JADE process forked by the fork server records line coverage of the
`jade` package (coverage.py on sys.monitoring, a few percent of overhead), the files are combined and the lines of the
property's anchored files that *no* process executed are printed with their source text.  This is a gap finder for the
workload generators (an unexecuted branch of an anchored mechanism = an input class or history the campaign lacks); it is not
part of any verdict and its output is not evidence.  Component checks that call JADE in-process (C07, C17, C18, C20) are not
covered by this tool.
"""
import json
import os
import shutil
import subprocess
import sys
import tempfile

VERIF = os.path.dirname(os.path.dirname(os.path.abspath(__file__)))
REPO = os.environ.get("VERIF_REPO", "/repo")


def main():
    pids = sys.argv[1:]
    props = {json.loads(l)["id"]: json.loads(l) for l in open(os.path.join(VERIF, "properties.jsonl"))}
    cov_dir = tempfile.mkdtemp(prefix="jadecov.", dir="/dev/shm" if os.path.isdir("/dev/shm") else None)
    try:
        files = set()
        for pid in pids:
            files.update(props[pid]["anchors"]["files"])
            env = dict(os.environ, VERIF_COV_DIR=cov_dir, VERIF_EVIDENCE_DIR=os.path.join(cov_dir, "ev"), VERIF_REPLAY_DIR=os.path.join(cov_dir, "rp"))
            r = subprocess.run(["./check", pid, os.environ.get("TIER", "quick")], cwd=VERIF, env=env, capture_output=True, text=True)
            print(pid, "rc", r.returncode, r.stdout.strip().splitlines()[-1:] or "", flush=True)
        sys.path.insert(0, os.path.join(VERIF, ".deps"))
        import coverage

        cov = coverage.Coverage(data_file=os.path.join(cov_dir, "cov"))
        cov.combine([cov_dir], keep=False)
        data = cov.get_data()
        print("measured files:", len(data.measured_files()))
        for rel in sorted(files | set(os.environ.get("EXTRA_FILES", "").split())):
            path = os.path.join(REPO, rel)
            try:
                _, statements, _, missing, _ = cov.analysis2(path)
            except Exception as e:
                print(f"== {rel}: not measured ({e})")
                continue
            print(f"== {rel}: {len(statements) - len(missing)}/{len(statements)} statements executed; not executed:")
            src = open(path).read().splitlines()
            for ln in missing:
                t = src[ln - 1]
                if not t.startswith((" ", "\t")) or t.strip().startswith(("def ", "@", "class ", "async def ")):
                    continue  # executed at import time, before the fork server forked
                print(f"   {ln:4d}  {src[ln - 1].rstrip()[:140]}")
    finally:
        shutil.rmtree(cov_dir, ignore_errors=True)


if __name__ == "__main__":
    main()
