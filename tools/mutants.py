#!/usr/bin/env python3
"""Self-validation: apply hand-made, suite-passing mutants to a scratch worktree of /repo (never to /repo itself), run the
named checks against it with VERIF_REPO, and record which oracle fired.  Results -> /verif/validation/mutants.md

usage: tools/mutants.py [id ...]      (no ids: all)
"""
import json
import os
import re
import subprocess
import sys
import time

VERIF = os.path.dirname(os.path.dirname(os.path.abspath(__file__)))
WT = "/tmp/wt_selfmut"

# (id, property checks to run, file, old, new, note)
M = [
    ("C01-batch-index-reset", ["C01"], "jade/hpc/hpc_submitter.py", "self._batch_index = cluster.job_status.batch_index", "self._batch_index = 1", "every round numbers its batches from 1: identifiers reused"),
    ("C01-skip-submitted-guard", ["C01", "C07"], "jade/hpc/hpc_submitter.py", "                if job.name in submitted_jobs_by_name:\n                    continue\n", "", "second pass of _make_batch re-admits jobs already in the batch"),
    ("C02-node-ignores-blockers", ["C02"], "jade/jobs/job_queue.py", "        elif job.get_blocking_jobs():", "        elif False and job.get_blocking_jobs():", "node queue starts blocked jobs at submit"),
    ("C02-unblock-on-any-result-name", ["C02", "C04"], "jade/hpc/hpc_submitter.py", "                        job.blocked_by.difference_update(newly_completed)", "                        job.blocked_by.clear() if newly_completed else None", "submitter clears all blockers as soon as anything completed"),
    ("C03-rc-sign", ["C03"], "jade/result.py", "        return self.return_code == 0 and self.status == JobCompletionStatus.FINISHED.value", "        return self.return_code in (0, 255) and self.status == JobCompletionStatus.FINISHED.value", "exit code 255 classified successful"),
    ("C04-node-ignores-flag", ["C04"], "jade/jobs/job_queue.py", "                        if job.cancel_on_blocking_job_failure and blocking_jobs.intersection(", "                        if blocking_jobs.intersection(", "node cancels unflagged dependents too"),
    ("C04-submitter-direct-only", ["C04"], "jade/hpc/hpc_submitter.py", "                        new_results.append(result)\n                        need_to_rerun = True", "                        new_results.append(result)\n                        need_to_rerun = False", "submitter cancels only direct dependents in one round"),
    ("C05-complete-before-summary", ["C05"], "jade/jobs/job_submitter.py", "        self.write_results_summary(RESULTS_FILE, missing_jobs)\n", "        cluster.mark_complete() if False else None\n        self.write_results_summary(RESULTS_FILE, missing_jobs)\n", "no-op control (must stay silent)"),
    ("C05-first-group-only", ["C05"], "jade/hpc/hpc_submitter.py", "                if not queue.is_full() and not self._cluster.is_canceled():\n                    self._submit_batches(queue, group, blocked_jobs, submitted_jobs)", "                if not queue.is_full() and not self._cluster.is_canceled():\n                    self._submit_batches(queue, group, blocked_jobs, submitted_jobs)\n                    break", "a round only serves the first group"),
    ("C05-flag-before-results", ["C05"], "jade/jobs/job_submitter.py", "        self.write_results_summary(RESULTS_FILE, missing_jobs)\n", "        cluster.mark_complete()\n        cluster._config.is_complete = False\n        self.write_results_summary(RESULTS_FILE, missing_jobs)\n", "completion flag written before the summary (and again later)"),
    ("C06-is-full-off-by-one", ["C06"], "jade/jobs/job_queue.py", "        return len(self._outstanding_jobs) >= self._queue_depth", "        return len(self._outstanding_jobs) > self._queue_depth", "one batch / process too many"),
    ("C06-fresh-active-set", ["C06"], "jade/hpc/hpc_submitter.py", "            existing_jobs=hpc_submitters,", "            existing_jobs=hpc_submitters[:-1],", "each round forgets one active batch"),
    ("C07-time-admission", ["C07"], "jade/hpc/hpc_submitter.py", "            and self._estimated_batch_time + timedelta(minutes=job.estimated_run_minutes)\n            > self._max_batch_time", "            and self._estimated_batch_time > self._max_batch_time", "time limit tested before adding the job"),
    ("C07-group-ignored", ["C07"], "jade/hpc/hpc_submitter.py", "            if jade_job.submission_group == submission_group.name:\n                available_jobs.append(job)", "            if True:\n                available_jobs.append(job)", "candidates of all groups offered to every group"),
    ("C08-no-header-recreation", ["C08"], "jade/jobs/results_aggregator.py", "            if f_out.tell() == 0:", "            if False:", "append to a deleted node file writes no header"),
    ("C08-append-without-lock", ["C08"], "jade/jobs/results_aggregator.py", "        self._do_action_under_lock(self._append_result, text)", "        self._append_result(text)", "runner appends without the node lock"),
    ("C09-canceled-not-counted", ["C09"], "jade/jobs/cluster.py", "        for _ in canceled_jobs:\n            self._config.submitted_jobs += 1", "        for _ in canceled_jobs:\n            pass", "canceled jobs not counted as submitted"),
    ("C10-promote-regardless", ["C10"], "jade/jobs/cluster.py", "        if self.has_submitter():\n            return False", "        if self.has_submitter() and self._config.submitter == self._hostname:\n            return False", "promotion only refused for the same host"),
    ("C10-skip-version-compare", ["C10"], "jade/jobs/cluster.py", "        if self._config.version != current:", "        if False and self._config.version != current:", "config written from a stale copy"),
    ("C11-no-submitter-lock-test", ["C11"], "jade/hpc/hpc_submitter.py", "        if lock_file.exists():\n            raise Exception(", "        if False and lock_file.exists():\n            raise Exception(", "a round runs although a previous one died after sbatch"),
    ("C11-move-delete-first", ["C11", "C08"], "jade/jobs/results_aggregator.py", "        results = self._get_results()\n        func(results)\n        os.remove(self._filename)", "        results = self._get_results()\n        os.remove(self._filename)\n        func(results)", "node file deleted before its rows are in the consolidated file"),
    ("C12-fabricate-on-force-complete", ["C12"], "jade/jobs/job_submitter.py", "            missing_jobs = sorted(all_jobs.difference(finished_jobs))", "            missing_jobs = sorted(all_jobs.difference(finished_jobs))[1:]", "one missing job silently dropped from the report"),
    ("C13-closure-once", ["C13"], "jade/cli/resubmit_jobs.py", "        if num_added == 0:\n            break", "        break", "dependents of dependents not resubmitted"),
    ("C13-keep-old-blockers", ["C13"], "jade/cli/resubmit_jobs.py", "                updated_blocking_jobs_by_name[job.name] = intersecting_jobs", "                updated_blocking_jobs_by_name[job.name] = set()", "rerun dependents start without waiting for rerun blockers"),
    ("C14-skip-last-scancel", ["C14"], "jade/jobs/job_submitter.py", "        for job_id in cluster.job_status.hpc_job_ids:\n            hpc.cancel_job(job_id)", "        for job_id in cluster.job_status.hpc_job_ids[:-1]:\n            hpc.cancel_job(job_id)", "last active batch not cancelled"),
    ("C15-no-stage-check", ["C15"], "jade/jobs/pipeline_manager.py", "            self._config.stages[stage_num - 2].return_code = return_code", "            self._config.stages[stage_num - 2].return_code = 0", "stage return codes always recorded as 0"),
    ("C16-setup-on-load", ["C16"], "jade/jobs/job_submitter.py", "        else:\n            self._handle_submission_groups()\n", "        else:\n            self._handle_submission_groups()\n            if self._config.setup_command is not None:\n                check_run_command(self._config.setup_command)\n", "setup command runs in every submitter round"),
    ("C17-skip-dependency-check", ["C17"], "jade/jobs/job_submitter.py", "        self._config.check_job_dependencies()\n", "", "dangling blockers accepted"),
    ("C18-suspended-complete", ["C18"], "jade/hpc/slurm_manager.py", '        "COMPLETING": HpcJobStatus.COMPLETE,', '        "COMPLETING": HpcJobStatus.COMPLETE,\n        "SUSPENDED": HpcJobStatus.COMPLETE,', "suspended batches treated as finished"),
    ("C18-retry-off-by-one", ["C18"], "jade/utils/run_command.py", "    max_tries = num_retries + 1", "    max_tries = num_retries + 2", "one retry too many"),
    ("C19-non-posix-split", ["C19"], "jade/jobs/async_cli_command.py", 'cmd = shlex.split(self._cli_cmd, posix="win" not in sys.platform)', "cmd = shlex.split(self._cli_cmd, posix=False)", "quotes kept in arguments"),
    ("C20-drop-last-event", ["C20"], "jade/events.py", "            self._events[name].sort(key=lambda x: x.timestamp)", "            self._events[name].sort(key=lambda x: x.timestamp)\n            if len(self._events[name]) > 7:\n                self._events[name].pop()", "last event of a long list dropped at consolidation"),
    ("C20-sort-by-source", ["C20"], "jade/events.py", "            self._events[name].sort(key=lambda x: x.timestamp)", "            self._events[name].sort(key=lambda x: x.source)", "events ordered by source"),
]


def sh(cmd, **kw):
    return subprocess.run(cmd, shell=True, capture_output=True, text=True, **kw)


def main():
    want = set(sys.argv[1:])
    os.makedirs(os.path.join(VERIF, "validation"), exist_ok=True)
    rows = []
    for mid, checks, f, old, new, note in M:
        if want and mid not in want:
            continue
        sh(f"git -C /repo worktree remove --force {WT}; rm -rf {WT}")
        r = sh(f"git -C /repo worktree add -q --detach {WT} HEAD")
        p = os.path.join(WT, f)
        src = open(p).read()
        if src.count(old) != 1:
            rows.append((mid, note, "-", f"PATTERN NOT FOUND x{src.count(old)}", ""))
            print(mid, "pattern not found", src.count(old), flush=True)
            continue
        open(p, "w").write(src.replace(old, new))
        for c in checks:
            t0 = time.time()
            r = sh(f"cd {VERIF} && VERIF_REPO={WT} VERIF_SEED=7 VERIF_EVIDENCE_DIR=/tmp/ev_selfmut VERIF_REPLAY_DIR=/tmp/rp_selfmut VERIF_WORKERS=10 ./check {c} quick", timeout=1800)
            lines = r.stdout.strip().splitlines()
            w = [l.strip() for l in lines if l.strip().startswith("witness")]
            verdict = "CAUGHT" if r.returncode == 1 else ("inconclusive" if r.returncode == 2 else "missed")
            rows.append((mid, note, c, verdict, (w[0][:230] if w else (lines[-1][:200] if lines else ""))))
            print(mid, c, verdict, round(time.time() - t0), "s", (w[0][:160] if w else ""), flush=True)
        sh(f"git -C /repo worktree remove --force {WT}; rm -rf {WT}")
    # checks write evidence even when pointed at a mutant tree: restore the committed evidence
    sh("rm -rf /tmp/ev_selfmut /tmp/rp_selfmut")
    out = os.path.join(VERIF, "validation", "mutants.md")
    old_rows = []
    with open(out, "a") as fh:
        if os.path.getsize(out) == 0:
            fh.write("# Hand-made mutants (scratch worktree of /repo HEAD, `VERIF_REPO=... VERIF_SEED=7 ./check <id> quick`)\n\n| mutant | change | check | result | first witness |\n|---|---|---|---|---|\n")
        for r_ in rows:
            fh.write("| " + " | ".join(str(x).replace("|", "/").replace("\n", " ") for x in r_) + " |\n")


if __name__ == "__main__":
    main()
