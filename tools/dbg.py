#!/venv/bin/python
"""tools/dbg.py PROP tier [--find KEY | --run INDEX] : developer aid; lists task indices with violations or runs one verbosely."""
import sys, os, json
sys.path.insert(0, "/verif/harness")
import registry
from sim import pool
prop, tier = sys.argv[1], sys.argv[2]
seed = int(os.environ.get("VERIF_SEED", "0"))
spec = registry.SPECS[prop]()
tasks = spec.tasks(tier, seed)
if sys.argv[3] == "--find":
    with pool.Context(zygote=getattr(spec, "zygote", True)) as ctx:
        res = pool.run_tasks(ctx, tasks, timeout=150)
    for i, r in enumerate(res):
        ks = sorted({(v["prop"], v["key"]) for v in r.get("violations", [])})
        if ks or r.get("error"):
            print(i, ks, (r.get("error") or "")[:300])
else:
    i = int(sys.argv[4])
    t = tasks[i]
    t["args"].update(trace=True, trace_n=100000, keep=f"/tmp/keep_{prop}_{i}")
    for kv in sys.argv[5:]:
        k, v = kv.split("=", 1); t["args"]["scen"][k] = json.loads(v)
    with pool.Context(zygote=getattr(spec, "zygote", True)) as ctx:
        r = pool.run_tasks(ctx, [t], timeout=300)[0]
    for e in r.pop("trace_tail", []):
        if e[1] == "EV" and not os.environ.get("EV"): continue
        print(" ".join(e)[:400])
    r.pop("choices", None)
    if "scen" in t["args"]:
        s = t["args"]["scen"]
        print(json.dumps({k: v for k, v in s.items() if k != "jobs"}))
        for j in s["jobs"]: print(j)
    print(json.dumps(r)[:4000])
