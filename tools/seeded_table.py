#!/usr/bin/env python3
"""Regenerate /verif/validation/seeded.md from /verif/seeded/*/meta.json."""
import glob, json, os
V = os.path.dirname(os.path.dirname(os.path.abspath(__file__)))
rows = []
for mp in sorted(glob.glob(os.path.join(V, "seeded", "*", "meta.json"))):
    m = json.load(open(mp)); d = os.path.basename(os.path.dirname(mp))
    am = m.get("agent_meta", {})
    conf = m.get("confirmation", {})
    checks = "; ".join(f"{c}: **{v['result']}**" + (f" ({v['output'][1][:110]})" if v["result"] == "caught" and len(v.get("output", [])) > 1 else "") for c, v in m.get("checks", {}).items())
    rows.append((d, (am.get("summary") or "")[:260].replace("\n", " ").replace("|", "/"), (m.get("what_it_needs_to_manifest") or "")[:220].replace("\n", " ").replace("|", "/"),
                 f"demo clean={conf.get('demo_on_unchanged_tree', {}).get('exit')} changed={conf.get('demo_on_changed_tree', {}).get('exit')}, suite newly failing={conf.get('pinned_suite_on_changed_tree', {}).get('newly_failing')}", checks.replace("|", "/"), m.get("note", "")))
with open(os.path.join(V, "validation", "seeded.md"), "w") as f:
    f.write("# Independently written breaking changes (sub-agents that saw only the property text) and what the checks report\n\n")
    f.write("Each change lives in /verif/seeded/<id>/ (patch.diff, demonstration, meta.json). Confirmation = the demonstration passes on the unchanged tree, fails with the change, and the pinned suite's 125 stable tests still pass. Checks were run with `VERIF_REPO=<scratch worktree with the change> ./check <id> quick`; nothing was ever applied to /repo.\n\n")
    f.write("| id | change | needs to manifest | confirmed | checks | note |\n|---|---|---|---|---|---|\n")
    for r in rows:
        f.write("| " + " | ".join(r) + " |\n")
print(len(rows), "entries")
