#!/usr/bin/env python3
"""tools/seed_prompts.py WAVE [Cxx ...]: write the task texts for a wave of independent sub-agents and create their worktrees.

Each agent gets /tmp/mut<WAVE>_<Cxx> (a detached scratch worktree of /repo's HEAD) and /tmp/mut<WAVE>_<Cxx>_out for its
deliverables, the text of ONE property, and one-line descriptions of the changes already known for that property (so that it
looks for a different mechanism).  Nothing else from /verif is given to it.  The texts go to /tmp/mutprompts<WAVE>/<Cxx>.txt.
Evaluate with:  SEED_SRC=/tmp/mut<WAVE>_<Cxx> tools/seeded.py <Cxx>-<WAVE> [checks ...]
"""
import glob
import importlib.util
import json
import os
import re
import subprocess
import sys

VERIF = os.path.dirname(os.path.dirname(os.path.abspath(__file__)))


def main():
    wave = sys.argv[1]
    props = {}
    for l in open(os.path.join(VERIF, "properties.jsonl")):
        d = json.loads(l)
        props[d["id"]] = d
    pids = sys.argv[2:] or sorted(props)
    spec = importlib.util.spec_from_file_location("mutants", os.path.join(VERIF, "tools", "mutants.py"))
    mm = importlib.util.module_from_spec(spec)
    spec.loader.exec_module(mm)
    os.makedirs(f"/tmp/mutprompts{wave}", exist_ok=True)
    for pid in pids:
        p = props[pid]
        wt = f"/tmp/mut{wave}_{pid}"
        if not os.path.exists(wt):
            subprocess.run(["git", "-C", os.environ.get("VERIF_REPO", "/repo"), "worktree", "add", "-q", "--detach", wt, "HEAD"], check=True)
        os.makedirs(wt + "_out", exist_ok=True)
        known = []
        for d in sorted(glob.glob(os.path.join(VERIF, "seeded", pid + "*"))):
            m = json.load(open(d + "/meta.json"))
            s = (m["agent_meta"].get("summary") or "")
            known.append(re.split(r"(?<=[.;]) ", s)[0][:330])
        for mid, checks, f, old, new, note in mm.M:
            if mid.startswith(pid):
                known.append(f"{f}: {note}")
        txt = f"""You are working in a scratch git worktree of the NREL/jade repository (JADE: a Python tool that batches jobs with dependencies onto SLURM/PBS HPC nodes and coordinates distributed submitter processes through file-locked shared state in an output directory). Your worktree is {wt}. Work ONLY inside {wt} and {wt}_out (exists). Do NOT read, list or touch /verif or /repo or any other directory under /tmp, and do not use the network.

Interpreter: /venv/bin/python (has all dependencies). jade is not pip-installed: run things with PYTHONPATH={wt} (pytest run from {wt} picks it up automatically). There is no `jade` executable on PATH; CLI entry points are `python -c "from jade.cli.jade import cli; cli()" ...` and `jade.cli.jade_internal`.

THE PROPERTY (title: {p['title']}):
{p['statement']}
Scope of the quantifier: {p['quantifier']['text']}
Relevant files (hints): {', '.join(p['anchors']['files'])}

ALREADY KNOWN CHANGES - do NOT produce any of these or a trivial variation of them; find a DIFFERENT mechanism (a different code site AND a different kind of trigger; look beyond the most obvious functions, e.g. at the CLI commands and their less common options, the job runner on the node, the status/locking helpers, the results summary, configuration handling, local mode, pipelines, parameter combinations that are rarely used together, the utility modules the anchored code calls into):
""" + "\n".join(" - " + k for k in known) + f"""

YOUR TASK: produce ONE realistic, small change to the jade *source* (not the tests) that BREAKS this property, of the kind a plausible refactoring / optimisation / bug-fix-gone-wrong could introduce, such that:
 1. the code still imports and runs;
 2. the existing test suite still passes as well as before. The suite has pre-existing failures (e.g. everything under tests/integration needs an installed `jade` executable). Criterion: the set of PASSING tests must not shrink. Check with: cd {wt} && /venv/bin/python -m pytest -q -p no:cacheprovider --timeout=900 tests/unit 2>&1 | tail -15   (run it once before your change to see the baseline: about 125 pass) and compare after your change;
 3. the break needs something SPECIFIC to manifest: a particular interleaving of processes, a crash or fault at a particular point, a multi-step sequence of operations, an unusual input/configuration, or two cooperating code sites that each look fine alone. It must NOT be something that any ordinary first use of jade would expose at once (e.g. do not simply make every submission crash).

DELIVERABLES, all in {wt}_out/ :
 - patch.diff : output of `git -C {wt} diff` (source change only; applies with `git apply` on a clean checkout of the same commit);
 - a demonstration: a small self-contained Python program or pytest file (demo.py or test_demo.py) that exercises the real jade code (you may create temporary directories, fake `sbatch`/`squeue` executables on PATH, monkeypatch at external-command boundaries, spawn processes, etc.) and that FAILS (non-zero exit / failing assertion that shows the property being violated) with your change applied and PASSES (exit 0) on the unmodified tree. It must finish within a few minutes. State exactly how to run it. Verify both directions yourself (`git apply` / `git apply -R` of your patch).
 - meta.json : {{"property": "{pid}", "summary": "<one paragraph: what was changed and why it breaks the property>", "needs_to_manifest": "<what specific input / interleaving / fault / sequence is needed>", "demo_cmd": "<exact command, one line, nothing after it>", "tests_before": "<passed/failed counts>", "tests_after": "<passed/failed counts>"}}

IMPORTANT: never use `git stash` (the stash is shared between worktrees of one repository and other people work in sibling worktrees); use `git apply -R` or `git checkout -- .` inside your own worktree only.

Keep the change small (ideally 1-10 lines). Spend your effort on understanding the code paths behind the property first. When done, leave the worktree with your change REVERTED (clean `git status`), and reply with a short summary (what you changed, what it needs to manifest, demo command, test counts)."""
        open(f"/tmp/mutprompts{wave}/{pid}.txt", "w").write(txt)
    print(len(pids), "task texts in", f"/tmp/mutprompts{wave}")


if __name__ == "__main__":
    main()
