#!/bin/bash
# tools/seed_eval.sh WAVE "Cxx:checks" ... : confirm the changes of a wave (tools/seed_prompts.py) one after the other and run the named
# checks against each (default: the property's own); RECHECK=1 only re-runs the checks.  Logs: /tmp/w<WAVE>logs/<Cxx>.log
w=$1; shift
cd "$(dirname "$0")/.."
mkdir -p /tmp/w${w}logs
for spec in "$@"; do
  p=${spec%%:*}; checks=${spec#*:}; [ "$checks" = "$spec" ] && checks=$p
  SEED_SRC=/tmp/mut${w}_$p VERIF_WORKERS=${W:-5} /venv/bin/python tools/seeded.py $p-$w $checks > /tmp/w${w}logs/${RECHECK:+re_}$p.log 2>&1
done
