#!/usr/bin/env python3
"""tools/seeded.py PID [check ...]: confirm an independently written breaking change and run checks against it.

Input: /tmp/mut_<PID> (scratch worktree of /repo, clean) and /tmp/mut_<PID>_out/{patch.diff, demo*, meta.json} written by a
sub-agent that saw only the property text.  Steps: (1) demo on the clean worktree must pass, (2) apply the patch, demo must
fail, (3) the pinned suite's stable tests must still pass on the changed tree, (4) run the named checks (default: the
property's own) with VERIF_REPO pointing at the changed tree, (5) keep everything under /verif/seeded/<PID>[-n]/.
The patch is never applied to /repo.
"""
import json
import os
import shutil
import subprocess
import sys
import tempfile
import time
import xml.etree.ElementTree as ET

VERIF = os.path.dirname(os.path.dirname(os.path.abspath(__file__)))


def sh(cmd, timeout=3600, **kw):
    try:
        return subprocess.run(cmd, shell=True, capture_output=True, text=True, timeout=timeout, **kw)
    except subprocess.TimeoutExpired as e:
        class R:  # noqa
            returncode = 124
            stdout = (e.stdout or b"").decode() if isinstance(e.stdout, bytes) else (e.stdout or "")
            stderr = "TIMEOUT"
        return R()


def stable_tests_pass(tree):
    base = json.load(open("/root/.vp/BASELINE.json"))
    out = tempfile.mktemp(suffix=".xml")
    env = dict(os.environ)
    env.pop("NREL_JADE_VERIF", None)
    subprocess.run(["/venv/bin/python", "-m", "pytest", "-q", "-p", "no:cacheprovider", "--timeout=900", "--continue-on-collection-errors", f"--junitxml={out}"], cwd=tree, env=env, stdout=subprocess.DEVNULL, stderr=subprocess.DEVNULL)
    passed = set()
    for tc in ET.parse(out).getroot().iter("testcase"):
        if not any(c.tag in ("failure", "error", "skipped") for c in tc):
            passed.add(f"{tc.get('classname')}::{tc.get('name')}")
    os.remove(out)
    want = set(base["stable_pass"])
    return sorted(want - passed), len(want & passed)


def main():
    pid = sys.argv[1]
    src = os.environ.get("SEED_SRC", f"/tmp/mut_{pid}")
    outd = src + "_out"
    checks = sys.argv[2:] or [pid[:3]]
    meta = json.load(open(os.path.join(outd, "meta.json")))
    demo = meta["demo_cmd"].split("   (")[0].strip()  # some agents appended an explanation in parentheses
    rep = {"property": pid[:3], "agent_meta": meta, "confirmation": {}}
    assert sh(f"git -C {src} status --porcelain").stdout.strip() == "", "worktree not clean"
    prevp = os.path.join(VERIF, "seeded", pid, "meta.json")
    reuse = os.environ.get("RECHECK") and os.path.exists(prevp) and json.load(open(prevp)).get("confirmed")
    if reuse:  # RECHECK=1: the change was confirmed before; only run the checks again (after the campaigns were strengthened)
        pm = json.load(open(prevp))
        rep["confirmation"], rep["confirmed"] = pm["confirmation"], pm["confirmed"]
        for k in ("first_result", "first_pass_checks", "note"):
            if k in pm:
                rep[k] = pm[k]
    else:
        r0 = sh(demo, timeout=1200)
        rep["confirmation"]["demo_on_unchanged_tree"] = {"exit": r0.returncode, "tail": (r0.stdout + r0.stderr)[-300:]}
    a = sh(f"git -C {src} apply {outd}/patch.diff")
    if a.returncode != 0:
        print("patch does not apply:", a.stderr)
        return 1
    try:
        if not reuse:
            r1 = sh(demo, timeout=1200)
            rep["confirmation"]["demo_on_changed_tree"] = {"exit": r1.returncode, "tail": (r1.stdout + r1.stderr)[-400:]}
            missing, npass = stable_tests_pass(src)
            rep["confirmation"]["pinned_suite_on_changed_tree"] = {"stable_passing": npass, "newly_failing": missing}
            rep["confirmed"] = r0.returncode == 0 and r1.returncode != 0 and not missing
            print(f"{pid}: demo clean={r0.returncode} changed={r1.returncode} suite newly failing={missing} -> confirmed={rep['confirmed']}", flush=True)
        rep["checks"] = {}
        for c in checks:
            t0 = time.time()
            r = sh(f"cd {VERIF} && VERIF_REPO={src} VERIF_SEED={os.environ.get('VERIF_SEED', '3')} VERIF_EVIDENCE_DIR=/tmp/ev_seed_{pid} VERIF_REPLAY_DIR=/tmp/rp_seed_{pid} VERIF_WORKERS={os.environ.get('VERIF_WORKERS', '12')} ./check {c} {os.environ.get('TIER', 'quick')}", timeout=7200)
            lines = r.stdout.strip().splitlines()
            w = [l.strip() for l in lines if l.strip().startswith(("witness", "VIOLATION", "INCONCLUSIVE"))]
            verdict = "caught" if r.returncode == 1 else ("inconclusive" if r.returncode == 2 else "missed")
            rep["checks"][c] = {"cmd": f"VERIF_REPO=<changed tree> ./check {c} {os.environ.get('TIER', 'quick')}", "result": verdict, "wall_s": round(time.time() - t0), "output": w[:6], "last_line": lines[-1] if lines else ""}
            print(f"  {c}: {verdict} {round(time.time() - t0)}s", *(w[:3]), sep="\n    ", flush=True)
    finally:
        sh(f"git -C {src} apply -R {outd}/patch.diff")
        sh(f"git -C {src} checkout -- . ; git -C {src} clean -fdq")
        sh(f"rm -rf /tmp/ev_seed_{pid} /tmp/rp_seed_{pid}")
    dst = os.path.join(VERIF, "seeded", pid)
    os.makedirs(dst, exist_ok=True)
    for f in os.listdir(outd):
        p = os.path.join(outd, f)
        if os.path.isfile(p) and os.path.getsize(p) < 200000 and f != "meta.json":
            shutil.copy(p, os.path.join(dst, f))
    prev = {}
    mp = os.path.join(dst, "meta.json")
    if os.path.exists(mp):
        prev = json.load(open(mp))
        prev_checks = prev.get("checks", {})
        prev_checks.update(rep.get("checks", {}))
        rep["checks"] = prev_checks
    rep["what_it_needs_to_manifest"] = meta.get("needs_to_manifest")
    json.dump(rep, open(mp, "w"), indent=1)
    return 0


if __name__ == "__main__":
    sys.exit(main())
