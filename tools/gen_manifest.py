#!/usr/bin/env python3
"""Regenerate /verif/MANIFEST.json from the table below (claimed checks) and properties.jsonl (the rest -> not_applicable)."""
import json
import os
import subprocess

VERIF = os.path.dirname(os.path.dirname(os.path.abspath(__file__)))

SIM_NOTE = (
    "Trusted base: the harness (audit-hook agent, deterministic scheduler, simulated sbatch/squeue/scancel, job probes, fork server), "
    "CPython's audit events as the granularity of interleaving (file open->write->close and lock-marker creation are atomic), one Linux kernel "
    "(no Lustre/NFS incoherence). Held = held on the executions the evidence file counts, not proved."
)
COMP_NOTE = (
    "Trusted base: the component harness driving JADE's real classes/functions in-process or as real subprocesses, the expectation tables written "
    "from the property text, and the generators' input space as described in the evidence 'rule'."
)

CHECKS = {
    "C01": ("exploration", "sim", "recorded sbatch/launch trace + multiset oracle (runtime monitoring under a deterministic process scheduler)",
            "Real jade CLI processes on virtual hosts against simulated SLURM under seeded adversarial schedules; every batch configuration is read at the instant of its sbatch and every job start is announced by a probe; multiset counts (placements, batch identifiers, starts) must be <= 1 and complete at fault-free completion. Exploration is the right level: the quantifier is over schedules x inputs x parameters, reach comes from ~10^2-10^3 executions per run with distinct interleaving signatures.", "4 C01"),
    "C02": ("exploration", "sim", "launch-instant observation of result rows on disk (runtime monitoring)",
            "At every job-probe launch, with all simulated processes stopped, the driver reads the result rows on disk and requires every configured blocker to have one; HPC and local mode.", "4 C02"),
    "C03": ("exploration", "sim", "differential runs of one DAG under k parameter sets x schedules against a topological reference evaluation",
            "Each DAG is executed under several batchings/limits/groups/modes/schedules; ResultsSummary of each completed run must equal the reference evaluation of the DAG and all variants of a DAG must agree.", "4 C03"),
    "C04": ("exploration", "sim", "trace oracle over canceled rows and job starts vs. reference evaluation",
            "Chains and diamonds of flagged jobs crossing batch boundaries; canceled result <=> model, canceled => command never started, others started exactly once; both cancellation sites (node, submitter) must be exercised or the run is inconclusive.", "4 C04"),
    "C05": ("exploration", "sim", "bounded-progress and lazy-round monitors over recorded rounds, squeue replies and status observations",
            "Liveness restated as bounded progress: every promoted recovery round must sbatch or complete; every promoted round that leaves a ready job behind must be justified by max-nodes from its own squeue replies; completion flag once, after results.json, with all results, no sbatch afterwards.", "4 C05"),
    "C06": ("exploration", "sim", "scheduler-truth counters checked at every sbatch and every job start",
            "The simulated scheduler knows how many batches are queued/running and how many probes are alive per node; limits must hold at every sbatch/launch and must actually be reached in the campaign (else inconclusive).", "4 C06"),
    "C09": ("exploration", "sim", "public-API status observations at every lock-free instant + invariant/monotonicity monitor",
            "The driver (not an actor) calls Cluster.deserialize + get_status_summary whenever the cluster lock has just been released, at idle instants and before each file mutation inside cancel-jobs/resubmit-jobs; invariants per observation, monotonicity between consecutive observations of one (re)submission.", "4 C09"),
}

ENGINES = [
    {"name": "vsim", "path": "harness/sim", "serves_properties": ["C01", "C02", "C03", "C04", "C05", "C06", "C09"],
     "kind_free_text": "runtime monitoring: real JADE CLI processes under a deterministic process scheduler (sys.addaudithook scheduling points, virtual time, virtual hosts, source-free failpoints), simulated SLURM executables, job probes, fork server; oracles over the recorded boundary trace"},
]


def main():
    props = [json.loads(l) for l in open(os.path.join(VERIF, "properties.jsonl"))]
    checks = []
    for p in props:
        pid = p["id"]
        if pid not in CHECKS:
            continue
        level, engine, technique, text, ref = CHECKS[pid]
        checks.append({
            "property_id": pid,
            "quick_cmd": f"./check {pid} quick",
            "thorough_cmd": f"./check {pid} thorough",
            "evidence_file": f"/verif/evidence/{pid}.json",
            "replay_cmd_template": f"./check {pid} --replay {{path}}",
            "engine": engine,
            "level_claimed": {"category": level, "text": text, "design_ref": f"DESIGN.md section {ref}"},
            "level_note": SIM_NOTE if engine == "vsim" else COMP_NOTE,
            "technique": technique,
        })
    m = {
        "version": 1,
        "setup_cmd": "./setup.sh",
        "hooks": {
            "guard": "NREL_JADE_VERIF",
            "enable": "none needed: all instrumentation is harness-side (sitecustomize on PYTHONPATH + sys.addaudithook + attribute patches); the guard name is reserved",
            "baseline_off_cmd": "cd /repo && env -u NREL_JADE_VERIF /venv/bin/python -m pytest -ra -q -p no:cacheprovider --timeout=900 --continue-on-collection-errors",
            "source_commits": [],
            "add_only": True,
        },
        "engines": ENGINES,
        "checks": checks,
        "notes": "Technique family: runtime monitoring. See DESIGN.md. Exit codes of every check: 0 held on what was observed, 1 VIOLATION, 2 INCONCLUSIVE (monitor floors not met).",
        "not_applicable": [{"property_id": p["id"], "reason": "check not yet built in this round (planned; see DESIGN.md section 4)"} for p in props if p["id"] not in CHECKS],
    }
    json.dump(m, open(os.path.join(VERIF, "MANIFEST.json"), "w"), indent=1)
    r = subprocess.run(["python3-vt", "-c", "import json,jsonschema;jsonschema.validate(json.load(open('/verif/MANIFEST.json')),json.load(open('/root/.vp/MANIFEST.schema.json')));print('MANIFEST valid,',len(json.load(open('/verif/MANIFEST.json'))['checks']),'checks')"], capture_output=True, text=True)
    print(r.stdout, r.stderr[-500:])


if __name__ == "__main__":
    main()
