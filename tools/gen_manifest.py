#!/usr/bin/env python3
"""Regenerate /verif/MANIFEST.json from the table below (claimed checks) and properties.jsonl (the rest -> not_applicable)."""
import json
import os
import subprocess

VERIF = os.path.dirname(os.path.dirname(os.path.abspath(__file__)))

SIM_NOTE = (
    "Trusted base: the harness (audit-hook agent, deterministic scheduler, simulated sbatch/squeue/scancel, job probes, fork server), "
    "CPython's audit events as the granularity of interleaving (file open->write->close and lock-marker creation are atomic), one Linux kernel "
    "(no Lustre/NFS incoherence), and an exclusive lock: the installed filelock's stale-marker break (read, rename, unlink) is scheduled as one step, "
    "because its documented race can detach a live holder's marker (runs in which that is observed are inconclusive). "
    "Held = held on the executions the evidence file counts, not proved."
)
COMP_NOTE = (
    "Trusted base: the component harness driving JADE's real classes/functions in-process or as real subprocesses, the expectation tables written "
    "from the property text, and the generators' input space as described in the evidence 'rule'."
)

CHECKS = {
    "C01": ("exploration", "vsim", "recorded sbatch/launch trace + multiset oracle (runtime monitoring under a deterministic process scheduler)",
            "Real jade CLI processes on virtual hosts against simulated SLURM under seeded adversarial schedules; every batch configuration is read at the instant of its sbatch and every job start is announced by a probe; multiset counts (placements, batch identifiers, starts) must be <= 1 and complete at fault-free completion. Exploration is the right level: the quantifier is over schedules x inputs x parameters, reach comes from ~10^2-10^3 executions per run with distinct interleaving signatures.", "4 C01"),
    "C02": ("exploration", "vsim", "launch-instant observation of result rows on disk (runtime monitoring)",
            "At every job-probe launch, with all simulated processes stopped, the driver reads the result rows on disk and requires every configured blocker to have one; HPC and local mode.", "4 C02"),
    "C03": ("exploration", "vsim", "differential runs of one DAG under k parameter sets x schedules against a topological reference evaluation",
            "Each DAG is executed under several batchings/limits/groups/modes/schedules; ResultsSummary of each completed run must equal the reference evaluation of the DAG and all variants of a DAG must agree.", "4 C03"),
    "C04": ("exploration", "vsim", "trace oracle over canceled rows and job starts vs. reference evaluation",
            "Chains and diamonds of flagged jobs crossing batch boundaries; canceled result <=> model, canceled => command never started, others started exactly once; both cancellation sites (node, submitter) must be exercised or the run is inconclusive.", "4 C04"),
    "C05": ("exploration", "vsim", "bounded-progress and lazy-round monitors over recorded rounds, squeue replies and status observations",
            "Liveness restated as bounded progress: every promoted recovery round must sbatch or complete; every promoted round that leaves a ready job behind must be justified by max-nodes from its own squeue replies; completion flag once, after results.json, with all results, no sbatch afterwards.", "4 C05"),
    "C06": ("exploration", "vsim", "scheduler-truth counters checked at every sbatch and every job start",
            "The simulated scheduler knows how many batches are queued/running and how many probes are alive per node; limits must hold at every sbatch/launch and must actually be reached in the campaign (else inconclusive).", "4 C06"),
    "C09": ("exploration", "vsim", "public-API status observations at every lock-free instant + invariant/monotonicity monitor",
            "The driver (not an actor) calls Cluster.deserialize + get_status_summary whenever the cluster lock has just been released, at idle instants and before each file mutation inside cancel-jobs/resubmit-jobs; invariants per observation, monotonicity between consecutive observations of one (re)submission.", "4 C09"),
    "C07": ("exploration", "comp", "exhaustive small-scope enumeration of real submitter rounds + per-batch oracle on the files handed to sbatch",
            "One real HpcSubmitter.run() per case with a recording stand-in at the sbatch boundary; EVERY job list of <= 3 jobs (quick) / <= 4 jobs (thorough) over a parameter grid, plus random larger lists and dry-run twins; the same per-batch oracle also judges every sbatch of the system campaigns. exhaustive:true in the evidence refers to the enumerated sub-scope only.", "4 C07"),
    "C08": ("exploration", "vsim", "call/return histories with unique row ids, exactly-once multiset check, parse check at every lock-free instant",
            "2-6 real writer processes and 1-3 real collector processes calling ResultsAggregator's public API under the deterministic scheduler at lock-operation granularity; every appended row is unique so a collected row identifies its write.", "4 C08"),
    "C10": ("exploration", "vsim", "interval-based history checking of promote/demote + per-step version monitor + file hashes around stale writes",
            "2-5 handles on 1-3 virtual hosts run seeded programs over Cluster's public API under the scheduler; mutual exclusion by definite/possible hold intervals, lost updates by a per-step on-disk version monitor, stale rejection by exception type and SHA-256 of the state files around every step of the attempt; a slice with a holder stalled inside the cluster lock beyond the lock timeout (waiting handles must fail loudly); a monitor on every removal of a lock marker (a live holder's marker deleted by another process); plus the submitter-field monitor on full simulations, incl. resubmit-jobs issued in the completion window.", "4 C10"),
    "C11": ("fault_enumeration", "vsim", "fault enumeration by deterministic replay (kill / torn write / EDQUOT / lock failure / sbatch / squeue at every scheduling point of a round) + safety oracles over the faulty history",
            "A reference run numbers the scheduling points of one submitter round; the same schedule is replayed with one fault at point k, then random continuations with further submitter attempts from other nodes and the user, under both lock-library behaviours; oracles: no job handed over or started twice, dependency order, result retention; after a squeue failure the run must reach the fault-free outcome. Quick stratifies over site classes, thorough enumerates every point.", "4 C11"),
    "C12": ("exploration", "vsim", "fault injection (node kills random and enumerated, sbatch failures, cycles) + accounting oracle against driver ground truth",
            "The driver knows which probes really exited and with what code; after the documented recovery the final results must account for every job: missing list exact, no fabricated or dropped result, justified cancels only, no start with a missing blocker, completion reached.", "4 C12"),
    "C13": ("exploration", "vsim", "resubmission scenarios with closure/selection reference model, before/after result comparison, refusal monitors",
            "Completed submissions (incl. missing jobs from killed nodes, with/without reports) followed by resubmit-jobs with random flag combinations, repeated resubmissions, and the command on incomplete submissions (idle / while another process is submitter, same or other host).", "4 C13"),
    "C14": ("exploration", "vsim", "trace oracle: no sbatch after the first canceled observation, scancel for every persisted id, result retention",
            "cancel-jobs issued at random moments of running submissions followed by further try-submit-jobs / show-status rounds (and, in a quarter, resubmit-jobs on the completed canceled submission); scancel kills nodes at driver-chosen points and fails for batches that are already gone; a cancel-jobs that obtained the role on an incomplete submission must mark it canceled.", "4 C14"),
    "C15": ("exploration", "vsim", "boundary-event monitor on stage configuration, submit-next-stage commands and pipeline.json",
            "Pipelines of 1-4 stages run with `jade pipeline submit` in HPC and local mode; the driver follows the current stage and checks order, once-only and bookkeeping clauses on boundary events.", "4 C15"),
    "C16": ("exploration", "vsim", "lifecycle-command probes reporting host/node/env/instant + order and count oracle",
            "All 16 subsets of the four lifecycle commands x local/HPC; each command is a probe that announces itself to the driver, which knows what has been handed to sbatch, what runs where and which results are on disk at that instant.", "4 C16"),
    "C17": ("exploration", "comp", "generator over the public models + round-trip comparison + single-invalidity injection with a recording sbatch boundary",
            "Thousands of generated configurations dumped and reloaded through the real functions; each valid one must be accepted (reaching sbatch), each single injected invalidity must raise before any sbatch.", "4 C17"),
    "C18": ("exploration", "comp", "expectation tables vs real scripts / real submitter rounds against scripted squeue, sbatch and flaky executables",
            "All 512 optional-field subsets (exhaustive) for the script; random scheduler listings over the full SLURM vocabulary, sbatch reply kinds and retry sequences served by real scripted executables to the real code; executions counted at the process boundary; plus the scripts of whole simulated submissions read at the instant of every sbatch (node rounds, CLI parameters, resubmissions with changed HPC parameters, disabled Singularity section).", "4 C18"),
    "C19": ("exploration", "vsim", "process-boundary recording of argv/env by the job probe + stdio files + result rows",
            "Hostile command lines (quoting, whitespace, special characters, three renderings) run through the real submit-jobs -> sbatch -> run-jobs path; the probe reports what it was really started with.", "4 C19"),
    "C20": ("exploration", "comp", "unique-id event histories from concurrent real writer processes, injected sample sequences, generated result sets",
            "Events: multiset equality, order, idempotence of EventsSummary over events written concurrently by forked processes; statistics: true min/max/mean of injected samples in the JSON written by finalize; tallies through the real completion step and on every completed simulation; simulated submissions whose jobs log events and resource samples themselves, incl. reports + resubmission (parquet summary compared row by row).", "4 C20"),
}

ENGINES = [
    {"name": "comp", "path": "harness/comp", "serves_properties": ["C07", "C17", "C18", "C20"],
     "kind_free_text": "runtime monitoring of components: JADE's real classes/functions driven in-process (or against real scripted executables) with generators, reference expectations and monitors at their boundary"},
    {"name": "vsim", "path": "harness/sim", "serves_properties": ["C01", "C02", "C03", "C04", "C05", "C06", "C08", "C09", "C10", "C11", "C12", "C13", "C14", "C15", "C16", "C19"],
     "kind_free_text": "runtime monitoring: real JADE CLI processes under a deterministic process scheduler (sys.addaudithook scheduling points, virtual time, virtual hosts, source-free failpoints), simulated SLURM executables, job probes, fork server; oracles over the recorded boundary trace"},
]


def main():
    props = [json.loads(l) for l in open(os.path.join(VERIF, "properties.jsonl"))]
    checks = []
    for p in props:
        pid = p["id"]
        if pid not in CHECKS:
            continue
        level, engine, technique, text, ref = CHECKS[pid]
        checks.append({
            "property_id": pid,
            "quick_cmd": f"./check {pid} quick",
            "thorough_cmd": f"./check {pid} thorough",
            "evidence_file": f"/verif/evidence/{pid}.json",
            "replay_cmd_template": f"./check {pid} --replay {{path}}",
            "engine": engine,
            "level_claimed": {"category": level, "text": text, "design_ref": f"DESIGN.md section {ref}"},
            "level_note": SIM_NOTE if engine in ("vsim", "sim") else COMP_NOTE,
            "technique": technique,
        })
    m = {
        "version": 1,
        "setup_cmd": "./setup.sh",
        "hooks": {
            "guard": "NREL_JADE_VERIF",
            "enable": "none needed: all instrumentation is harness-side (sitecustomize on PYTHONPATH + sys.addaudithook + attribute patches); the guard name is reserved",
            "baseline_off_cmd": "cd /repo && env -u NREL_JADE_VERIF /venv/bin/python -m pytest -ra -q -p no:cacheprovider --timeout=900 --continue-on-collection-errors",
            "source_commits": [],
            "add_only": True,
        },
        "engines": ENGINES,
        "checks": checks,
        "notes": "Technique family: runtime monitoring. See DESIGN.md. Exit codes of every check: 0 held on what was observed, 1 VIOLATION, 2 INCONCLUSIVE (monitor floors not met). Known findings (genuine defects recorded, not repaired; keyed by mechanism): /verif/known_findings.json - C12 dead-node-results-lock, C20 event-after-consolidation; replays of every defect as first reproduced: /verif/findings/.",
        "not_applicable": [{"property_id": p["id"], "reason": "check not yet built in this round (planned; see DESIGN.md section 4)"} for p in props if p["id"] not in CHECKS],
    }
    json.dump(m, open(os.path.join(VERIF, "MANIFEST.json"), "w"), indent=1)
    r = subprocess.run(["python3-vt", "-c", "import json,jsonschema;jsonschema.validate(json.load(open('/verif/MANIFEST.json')),json.load(open('/root/.vp/MANIFEST.schema.json')));print('MANIFEST valid,',len(json.load(open('/verif/MANIFEST.json'))['checks']),'checks')"], capture_output=True, text=True)
    print(r.stdout, r.stderr[-500:])


if __name__ == "__main__":
    main()
