#!/bin/bash
# tools/sweep.sh TIER SEED... : run every registered check for each seed; print one summary line per run
tier=$1; shift
cd "$(dirname "$0")/.."
[ -d .deps/jsonschema ] || ./setup.sh >/dev/null
for s in "$@"; do
  for p in ${PROPS:-C01 C02 C03 C04 C05 C06 C07 C08 C09 C10 C11 C12 C13 C14 C15 C16 C17 C18 C19 C20}; do
    out=$(VERIF_SEED=$s PYTHONHASHSEED=0 ./check $p $tier 2>&1); rc=$?
    echo "seed=$s $p rc=$rc $(echo "$out" | tail -1)"
    if [ $rc -ne 0 ]; then echo "$out" | grep -E "VIOLATION|INCONCLUSIVE|witness" | head -6; fi
  done
done
